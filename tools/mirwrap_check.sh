#!/bin/sh
# RUSTC_WORKSPACE_WRAPPER for `cargo check`: dump MIR via -Zunpretty=mir (no codegen),
# then run the normal metadata-only compile so cargo is satisfied.
rustc="$1"; shift
out="${VERIF_MIR_OUT:?VERIF_MIR_OUT not set}"
case " $* " in
  *" --crate-name ckb_light_client "*)
    RUSTC_BOOTSTRAP=1 "$rustc" "$@" -Zmir-opt-level=0 -Zmir-include-spans -Zunpretty=mir -Awarnings > "$out.tmp" 2> "$out.err" || { cat "$out.err" >&2; exit 1; }
    mv "$out.tmp" "$out"
    ;;
esac
exec "$rustc" "$@"
