#!/usr/bin/env python3
"""Evaluate a seeded regression delivered by a sub-agent in /tmp/seed-<ID>-<n>/ (patch.diff, demo.diff, meta.json).

 1. confirm in a scratch worktree: with patch -> 115 existing tests pass and the demo FAILS; without patch -> demo PASSES
 2. apply the patch to /repo, run every claimed check, undo; record which checks report a VIOLATION
 3. store it under /verif/seeded/<ID>-<n>/ with meta.json extended by what was run and what caught it
"""
import json, os, re, shutil, subprocess, sys

VERIF = '/verif'
REPO = '/repo'


def sh(cmd, cwd=None, timeout=3600):
    p = subprocess.run(cmd, shell=True, cwd=cwd, stdout=subprocess.PIPE, stderr=subprocess.STDOUT, text=True, timeout=timeout)
    return p.returncode, p.stdout


def main(tag, skip_confirm=False):
    src = '/tmp/seed-%s' % tag
    meta = json.load(open(os.path.join(src, 'meta.json')))
    demo_name = meta.get('demo_test', '')
    short = demo_name.split('::')[-1]
    ran = []
    confirmed = None
    if not skip_confirm:
        wt = '/tmp/wt-eval-%s' % tag
        sh('git -C /repo worktree remove --force %s; rm -rf %s' % (wt, wt))
        rc, out = sh('/verif/tools/mkwt.sh eval-%s' % tag)
        assert rc == 0, out
        try:
            rc, out = sh('git apply %s/demo.diff || git apply --3way %s/demo.diff' % (src, src), cwd=wt)
            assert rc == 0, 'demo does not apply: ' + out
            rc, out = sh('cargo test --offline %s 2>&1 | grep -E "^test |test result"' % short, cwd=wt)
            ran.append('unmodified + demo: cargo test --offline %s -> %s' % (short, out.strip().split('\n')[-1]))
            base_pass = ' 0 failed' in out and re.search(r'[1-9]\d* passed', out) is not None
            rc, out = sh('git apply %s/patch.diff || git apply --3way %s/patch.diff' % (src, src), cwd=wt)
            assert rc == 0, 'patch does not apply: ' + out
            rc, out = sh('cargo test --offline 2>&1 | grep -E "^test .*FAILED|test result"', cwd=wt)
            ran.append('patched + demo: cargo test --offline -> %s' % out.strip().replace('\n', ' | '))
            failed = re.findall(r'^test (\S+) \.\.\. FAILED', out, flags=re.M)
            m = re.search(r'(\d+) passed; (\d+) failed', out)
            passed_n = int(m.group(1)) if m else -1
            only_demo_fails = bool(failed) and all(short in f or 'demo' in f or 'seed' in f for f in failed)
            confirmed = base_pass and only_demo_fails and passed_n >= 115
            ran.append('existing tests with the patch: %d passed; failing tests: %s' % (passed_n, failed))
        finally:
            sh('rm -rf %s/target; git -C /repo worktree remove --force %s; /verif/tools/cleantmp.sh' % (wt, wt))
    # 2. run checks against a scratch copy of /repo's working tree with the patch applied (same machinery: VERIF_REPO)
    import tempfile, hashlib, glob
    d = tempfile.mkdtemp(prefix='lcv-seed-')
    for f in ('Cargo.toml', 'Cargo.lock', 'rust-toolchain', 'build.rs', 'README.md'):
        if os.path.exists('/repo/' + f):
            shutil.copy2('/repo/' + f, d)
    shutil.copytree('/repo/src', d + '/src')
    rc, out = sh('patch -p1 -s -f -d %s -i %s/patch.diff' % (d, src))
    assert rc == 0, out
    caught = {}
    try:
        man = json.load(open(os.path.join(VERIF, 'MANIFEST.json')))
        ids = [c['property_id'] for c in man['checks']]
        env = 'VERIF_REPO=%s VERIF_EVIDENCE_DIR=%s/_e VERIF_REPORT_DIR=%s/_r' % (d, d, d)
        for i in ids:
            rc, o = sh('%s ./lcv check %s' % (env, i), cwd=VERIF)
            keys = [l.strip()[10:].split('  at ')[0] for l in o.split('\n') if l.strip().startswith('violated:')]
            caught[i] = {'exit': rc, 'violations': keys, 'tail': o[-300:] if rc == 2 else ''}
    finally:
        tagd = hashlib.sha256(os.path.abspath(d).encode()).hexdigest()[:8]
        shutil.rmtree(d, ignore_errors=True)
        for f in glob.glob(os.path.join(VERIF, '.cache', '*%s*' % tagd)):
            try:
                os.unlink(f)
            except OSError:
                pass
    fired = {k: v for k, v in caught.items() if v['exit'] == 1}
    incon = {k: v for k, v in caught.items() if v['exit'] == 2}
    dst = os.path.join(VERIF, 'seeded', tag)
    os.makedirs(dst, exist_ok=True)
    shutil.copy(os.path.join(src, 'patch.diff'), dst)
    shutil.copy(os.path.join(src, 'demo.diff'), os.path.join(dst, 'demo.diff'))
    meta['confirmed_by_me'] = confirmed
    meta['what_i_ran'] = ran
    meta['checks_reporting_violation'] = {k: v['violations'] for k, v in fired.items()}
    meta['checks_inconclusive'] = {k: v['tail'] for k, v in incon.items()}
    meta['caught'] = bool(fired)
    json.dump(meta, open(os.path.join(dst, 'meta.json'), 'w'), indent=1)
    print(json.dumps({'tag': tag, 'confirmed': confirmed, 'caught_by': {k: v['violations'][:3] for k, v in fired.items()}, 'inconclusive': sorted(incon)}, indent=1))


if __name__ == '__main__':
    main(sys.argv[1], skip_confirm='--skip-confirm' in sys.argv)
