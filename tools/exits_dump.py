#!/usr/bin/env python3
"""exits_dump.py <function name substring> ... : print the exit census of matching bodies (review aid)."""
import sys, os
sys.path.insert(0, os.path.dirname(os.path.dirname(os.path.abspath(__file__))))
from engine import program
from engine.exits import Exits
from engine.inline import inline
P = program.load()
for pat in sys.argv[1:]:
    for b in P.bodies:
        if pat == b.name or (pat.endswith('*') and b.name.startswith(pat[:-1])):
            print('==', b.name)
            bb = inline(P, b) if os.environ.get('INLINE', '1') == '1' else b
            print('   inlined:', getattr(bb, '_inlined', []))
            for e in Exits(P, bb).census():
                print('  [%s] %s   @%s' % (e['cls'], e['label'], e['span']))
                for a in e['atoms']:
                    print('        ', a)
