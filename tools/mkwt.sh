#!/bin/bash
# mkwt.sh <name> — scratch git worktree of /repo HEAD at /tmp/wt-<name> with a warm copy of the dependency build
# (template /tmp/lc-target-template, built on first use: the dependencies' artefacts do not depend on the workspace path, so
# cargo only rebuilds the workspace crate: ~35 s instead of ~2 min).  Remove a worktree, with its build output, with
#   git -C /repo worktree remove --force /tmp/wt-<name>
set -e
wt=/tmp/wt-$1
T=/tmp/lc-target-template
git -C /repo worktree remove --force "$wt" 2>/dev/null || true
rm -rf "$wt"
git -C /repo worktree add --detach "$wt" HEAD >/dev/null 2>&1
if [ ! -d $T/debug/deps ]; then
  ( cd "$wt" && CARGO_TARGET_DIR=$T cargo test --offline --no-run >/dev/null 2>&1 ) || true
  rm -rf $T/debug/incremental $T/debug/deps/ckb_light_client-*
fi
mkdir -p "$wt/target"
cp -a $T/debug "$wt/target/debug"
echo "$wt"
