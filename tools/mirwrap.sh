#!/bin/sh
# RUSTC_WORKSPACE_WRAPPER: only the workspace crate is compiled through this.
# Emits textual MIR (unoptimised, with source spans) next to the normal outputs.
rustc="$1"; shift
RUSTC_BOOTSTRAP=1 exec "$rustc" "$@" -Zmir-opt-level=0 -Zmir-include-spans --emit=mir
