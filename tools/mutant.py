#!/usr/bin/env python3
"""Run checks against a mutated scratch copy of /repo (never touches /repo).

  mutant.py <patch-file|-e 'file:::old:::new'> [ID ...]     -> prints per-ID exit status and violation keys

The scratch copy lives under /tmp, shares the dependency target dir (only the workspace crate is
re-checked, ~6 s) and is removed afterwards.
"""
import os, sys, shutil, subprocess, tempfile, json

VERIF = os.path.dirname(os.path.dirname(os.path.abspath(__file__)))
REPO = '/repo'


def make_scratch():
    d = tempfile.mkdtemp(prefix='lcv-mut-')
    for f in ('Cargo.toml', 'Cargo.lock', 'rust-toolchain', 'build.rs', 'README.md'):
        p = os.path.join(REPO, f)
        if os.path.exists(p):
            shutil.copy2(p, d)
    shutil.copytree(os.path.join(REPO, 'src'), os.path.join(d, 'src'))
    return d


def apply(d, spec):
    if spec.startswith('-e '):
        f, old, new = spec[3:].split(':::')
        p = os.path.join(d, f)
        s = open(p).read()
        nth = None
        if old.startswith('#'):
            nth, old = old[1:].split('#', 1)
            nth = int(nth)
        if nth is None and s.count(old) != 1:
            raise SystemExit('edit: %r occurs %d times in %s' % (old, s.count(old), f))
        if nth is None:
            s = s.replace(old, new)
        else:
            parts = s.split(old)
            if len(parts) <= nth:
                raise SystemExit('edit: %r occurs only %d times' % (old, len(parts) - 1))
            s = old.join(parts[:nth]) + new + old.join(parts[nth:])
        open(p, 'w').write(s)
    else:
        r = subprocess.run(['patch', '-p1', '-s', '-d', d, '-i', os.path.abspath(spec)])
        if r.returncode:
            raise SystemExit('patch failed')


def run(d, ids):
    env = dict(os.environ, VERIF_REPO=d, VERIF_EVIDENCE_DIR=os.path.join(d, '_evidence'), VERIF_REPORT_DIR=os.path.join(d, '_reports'))
    res = {}
    for i in ids:
        p = subprocess.run([os.path.join(VERIF, 'lcv'), 'check', i], env=env, stdout=subprocess.PIPE, stderr=subprocess.STDOUT, text=True)
        keys = [l.strip() for l in p.stdout.split('\n') if l.strip().startswith('violated:') or l.startswith('INCONCLUSIVE') or l.startswith('FACTS')]
        res[i] = (p.returncode, keys, p.stdout)
    return res


if __name__ == '__main__':
    args = sys.argv[1:]
    if args[0] == '-e':
        spec = '-e ' + args[1]
        ids = args[2:]
    else:
        spec = args[0]
        ids = args[1:]
    d = make_scratch()
    try:
        apply(d, spec)
        res = run(d, ids)
        for i, (rc, keys, out) in res.items():
            print('%s exit=%d' % (i, rc))
            for k in keys:
                print('   ' + k[:300])
            if rc == 2 or (rc != 0 and not keys):
                print(out[-2500:])
    finally:
        shutil.rmtree(d, ignore_errors=True)
        import glob, hashlib
        tag = hashlib.sha256(os.path.abspath(d).encode()).hexdigest()[:8]
        for f in glob.glob(os.path.join(VERIF, '.cache', '*%s*' % tag)):
            os.unlink(f)
