#!/usr/bin/env python3
"""wave.py [--jobs N] [patch ...] — run every claimed check on each behaviour-preserving candidate of selftest/benign_wave/
(sub-agent refactors, bold and mild) in scratch copies; one summary line per patch.  Review aid: the candidates that are silent
are promoted to selftest/benign/ by hand; the others document the residual false-alarm classes (DESIGN §8)."""
import glob, os, sys, subprocess, shutil, tempfile, hashlib, json
from concurrent.futures import ThreadPoolExecutor
V = os.path.dirname(os.path.dirname(os.path.abspath(__file__)))
sys.path.insert(0, V)
from rules.claims import CLAIMS
args = sys.argv[1:]
jobs = 4
if '--jobs' in args:
    i = args.index('--jobs'); jobs = int(args[i + 1]); del args[i:i + 2]
patches = args or sorted(glob.glob(os.path.join(V, 'selftest', 'benign_wave', '*.patch')))


def one(patch):
    d = tempfile.mkdtemp(prefix='lcv-wave-')
    res = {}
    try:
        for f in ('Cargo.toml', 'Cargo.lock', 'rust-toolchain', 'build.rs', 'README.md'):
            if os.path.exists('/repo/' + f):
                shutil.copy2('/repo/' + f, d)
        shutil.copytree('/repo/src', d + '/src')
        r = subprocess.run(['patch', '-p1', '-s', '-f', '-d', d, '-i', patch], stdout=subprocess.PIPE, stderr=subprocess.STDOUT, text=True)
        if r.returncode:
            return patch, {'_': 'does not apply'}
        env = dict(os.environ, VERIF_REPO=d, VERIF_EVIDENCE_DIR=d + '/_e', VERIF_REPORT_DIR=d + '/_r', VERIF_TIER='quick')
        for i in sorted(CLAIMS):
            p = subprocess.run([V + '/lcv', 'check', i, '--tier', 'quick'], env=env, stdout=subprocess.PIPE, stderr=subprocess.STDOUT, text=True)
            if p.returncode:
                res[i] = [l.strip()[10:170] for l in p.stdout.split('\n') if l.strip().startswith('violated:') and '(?)' not in l] or [l[:170] for l in p.stdout.split('\n') if 'INCONCL' in l or 'INTERNAL' in l]
    finally:
        tag = hashlib.sha256(os.path.abspath(d).encode()).hexdigest()[:8]
        shutil.rmtree(d, ignore_errors=True)
        for f in glob.glob(os.path.join(V, '.cache', '*%s*' % tag)):
            try:
                os.unlink(f)
            except OSError:
                pass
    return patch, res


tot = 0
with ThreadPoolExecutor(jobs) as ex:
    for patch, res in ex.map(one, patches):
        tot += bool(res)
        print('%-28s %s' % (os.path.basename(patch)[:-6], 'SILENT' if not res else 'ALARM in ' + ' '.join(sorted(res))))
        for k, v in sorted(res.items()):
            for l in v[:2]:
                print('      %s' % l)
print('%d of %d candidates raise an alarm' % (tot, len(patches)))
