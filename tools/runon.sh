#!/bin/bash
# runon.sh <scratch-name> [ID ...] — run checks on /tmp/lcv-s-<name>, print a compact summary
d=/tmp/lcv-s-$1; shift
ids=${@:-C01 C02 C03 C04 C06 C07 C08 C09 C10 C11 C12 C13 C14 C15 C16 C17 C18}
for i in $ids; do
  VERIF_REPO=$d VERIF_EVIDENCE_DIR=$d/_e VERIF_REPORT_DIR=$d/_r /verif/lcv check $i 2>&1 | grep -E "violated:|INCONCL|INTERNAL|^\[C|Error" | grep -v "0 violated\|violated ([0-9]* known" | cut -c1-${W:-260} | head -${N:-6}
done
