#!/usr/bin/env python3
import json, glob, sys
import jsonschema
ok = True
m = json.load(open('/verif/MANIFEST.json'))
jsonschema.validate(m, json.load(open('/root/.vp/MANIFEST.schema.json')))
es = json.load(open('/root/.vp/EVIDENCE.schema.json'))
for c in m['checks']:
    try:
        jsonschema.validate(json.load(open('/verif/' + c['evidence_file'])), es)
    except Exception as e:
        ok = False
        print('BAD', c['evidence_file'], str(e)[:300])
print('manifest valid; %d checks; evidence %s' % (len(m['checks']), 'valid' if ok else 'INVALID'))
sys.exit(0 if ok else 1)
