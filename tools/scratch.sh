#!/bin/bash
# scratch.sh <name> <patch> — scratch copy of /repo's sources with a patch applied, for repeated runs with VERIF_REPO=/tmp/lcv-s-<name>
d=/tmp/lcv-s-$1
rm -rf $d; mkdir -p $d
for f in Cargo.toml Cargo.lock rust-toolchain build.rs README.md; do [ -e /repo/$f ] && cp -p /repo/$f $d/; done
cp -rp /repo/src $d/src
patch -p1 -s -f -d $d -i $2 || { echo "patch failed"; exit 1; }
echo $d
