#!/usr/bin/env python3
"""census_gen.py <fn> [<fn> ...]  — (re)generate rules/census_table.json entries from the CURRENT tree (review aid; never run by checks).
   census_gen.py --show <fn>      — print the entry human-readably."""
import sys, os, json
sys.path.insert(0, os.path.dirname(os.path.dirname(os.path.abspath(__file__))))
from engine import program, census
P = program.load(quiet=True)
args = sys.argv[1:]
show = False
if args and args[0] == '--show':
    show = True
    args = args[1:]
tab = census.load_table() if os.path.exists(census.TABLE) else {}
for name in args:
    flags = name[:len(name) - len(name.lstrip('+~!'))]
    name = name.lstrip('+~!')
    sinks = None
    if '@' in name:
        name, sinks = name.split('@', 1)
    old = tab.get(name, {})
    eff = bool(old.get('effects')) or '+' in flags
    clo = bool(old.get('closures')) or '~' in flags
    gua = bool(old.get('guarded')) or '!' in flags
    sinks = sinks or old.get('sinks')
    ex, inl = census.compute(P, name, tuple(old.get('opaque', ())), eff, sinks, clo, gua)
    if show:
        print('==', name, ' inlined:', sorted(set(inl)))
        for e in ex:
            print('  [%s] %s   @%s' % (e['cls'], e['label'][:400], e['span'].split('/')[-1]))
            print('       trigger:', ' & '.join(e['trigger'])[:600])
            for a in e['full']:
                print('         ', a[:400])
        continue
    ent = {'effects': eff, 'sinks': sinks, 'closures': clo, 'guarded': gua, 'note': old.get('note', 'TODO review'), 'opaque': old.get('opaque', []), 'inlined': sorted(set(inl)),
           'exits': [{k: e[k] for k in ('cls', 'label', 'trigger', 'atoms', 'full')} for e in ex]}
    ent['order'] = list(getattr(census.compute, 'last_order', []))
    ent['consts'] = dict(getattr(census.compute, 'last_consts', {}))
    from engine import facts as _facts
    import re as _re
    _marks = set(_re.findall(r'…#([0-9a-f]{12})', json.dumps(ent['exits'], ensure_ascii=False)))
    ent['abbr'] = {d: sorted(_facts.ABBR[d]) for d in sorted(_marks) if d in _facts.ABBR}
    ent['floor'] = len(ex)
    tab[name] = ent
    print('generated', name, len(ex), 'exits; inlined', len(set(inl)))
if not show:
    json.dump(tab, open(census.TABLE, 'w'), indent=1, sort_keys=True)
