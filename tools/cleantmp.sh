#!/bin/bash
# remove scratch left-overs of the checker and of cargo under /tmp (never anything a registered command needs)
rm -rf /tmp/lcv-benign-* /tmp/lcv-mut-* /tmp/seed-ev-* /tmp/seed-rep-* /tmp/rust_out* /tmp/rustc* 2>/dev/null
git -C /repo worktree prune 2>/dev/null
exit 0
