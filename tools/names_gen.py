#!/usr/bin/env python3
"""names_gen.py — regenerate rules/names_reference.json from the CURRENT tree (review aid; never run by checks)."""
import sys, os, json
sys.path.insert(0, os.path.dirname(os.path.dirname(os.path.abspath(__file__))))
os.environ['VERIF_NO_ALIASES'] = '1'
from engine import program, aliases
P = program.load(quiet=True)
ref = aliases.generate(P)
json.dump(ref, open(aliases.REF, 'w'), indent=0, sort_keys=True)
print('functions:', len(ref), 'names:', sum(len(v) for v in ref.values()))
os.environ['VERIF_NO_NORMALISE'] = '1'
from engine import normalise
fr = normalise.generate(P)
json.dump(fr, open(normalise.REF, 'w'), indent=0, sort_keys=True)
print('function vocabulary:', len(fr))
