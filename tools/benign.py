#!/usr/bin/env python3
"""benign.py [ID ...] — apply every selftest/benign/*.patch (behaviour-preserving edits: renames, logging, reordering of
independent checks, helper extraction, an added rejection) to a scratch copy and run the given checks (default: all claimed):
every run must exit 0.  Prints one line per (patch, ID)."""
import glob, os, sys, subprocess, shutil, tempfile, hashlib
V = os.path.dirname(os.path.dirname(os.path.abspath(__file__)))
sys.path.insert(0, V)
from rules.claims import CLAIMS
args = sys.argv[1:]
patches = None
if '--patch' in args:          # benign.py --patch <file> [ID ...]: evaluate one candidate control (full violation lines)
    i = args.index('--patch')
    patches = [args[i + 1]]
    del args[i:i + 2]
ids = args or sorted(CLAIMS)
bad = 0
for patch in (patches or sorted(glob.glob(os.path.join(V, 'selftest', 'benign', '*.patch')))):
    d = tempfile.mkdtemp(prefix='lcv-benign-')
    try:
        for f in ('Cargo.toml', 'Cargo.lock', 'rust-toolchain', 'build.rs', 'README.md'):
            if os.path.exists('/repo/' + f):
                shutil.copy2('/repo/' + f, d)
        shutil.copytree('/repo/src', d + '/src')
        r = subprocess.run(['patch', '-p1', '-s', '-f', '-d', d, '-i', patch], stdout=subprocess.PIPE, stderr=subprocess.STDOUT, text=True)
        if r.returncode:
            print('%-55s does not apply any more (skipped)' % os.path.basename(patch))
            continue
        env = dict(os.environ, VERIF_REPO=d, VERIF_EVIDENCE_DIR=d + '/_e', VERIF_REPORT_DIR=d + '/_r', VERIF_TIER='quick')
        for i in ids:
            p = subprocess.run([V + '/lcv', 'check', i, '--tier', 'quick'], env=env, stdout=subprocess.PIPE, stderr=subprocess.STDOUT, text=True)
            ok = p.returncode == 0
            bad += 0 if ok else 1
            print('%-55s %s exit=%d %s' % (os.path.basename(patch), i, p.returncode, '' if ok else [l.strip()[:(2000 if patches else 200)] for l in p.stdout.split('\n') if 'violated:' in l or 'INCONCL' in l or 'INTERNAL' in l][:(40 if patches else 3)]))
    finally:
        tag = hashlib.sha256(os.path.abspath(d).encode()).hexdigest()[:8]
        shutil.rmtree(d, ignore_errors=True)
        for f in glob.glob(os.path.join(V, '.cache', '*%s*' % tag)):
            try:
                os.unlink(f)
            except OSError:
                pass
sys.exit(1 if bad else 0)
