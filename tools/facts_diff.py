#!/usr/bin/env python3
"""facts_diff.py <function> — reviewed facts lost in the current tree (VERIF_REPO honoured) and the nearest current facts."""
import sys, os
sys.path.insert(0, os.path.dirname(os.path.dirname(os.path.abspath(__file__))))
from engine import program, census, facts
P = program.load(quiet=True)
name = sys.argv[1]
ent = census.load_table()[name]
act, _ = census.compute(P, name, tuple(ent.get('opaque', ())), bool(ent.get('effects')), ent.get('sinks'), bool(ent.get('closures')), bool(ent.get('guarded')))
for _d, _l in (ent.get('abbr') or {}).items():
    facts.ABBR.setdefault(_d, frozenset(_l))
lost, nr, na = facts.lost(ent['exits'], act)
fa = facts.facts(act)
print('normalised:', P.normalised)
for f in lost:
    print('LOST', facts.render(f))
    near = [g for g in fa if g[0] == f[0] and (f[0] not in ('cmp', 'effect') or g[1] == f[1])]
    def score(g):
        a = set().union(*[x for x in f[1:] if isinstance(x, frozenset)]); b = set().union(*[x for x in g[1:] if isinstance(x, frozenset)])
        return -len(a & b) + len(a ^ b) * 0.1
    for g in sorted(near, key=score)[:3]:
        print('     ~', facts.render(g))
