#!/usr/bin/env python3
"""seed_recheck.py <tag> ... — re-run every claimed check against stored seeds (seeded/<tag>/patch.diff) with the current rules and
update checks_reporting_violation / checks_inconclusive / caught in their meta.json (the confirmation fields are left alone)."""
import json, os, sys, shutil, subprocess, tempfile, hashlib, glob
V = '/verif'


def one(tag):
    dst = os.path.join(V, 'seeded', tag)
    meta = json.load(open(os.path.join(dst, 'meta.json')))
    d = tempfile.mkdtemp(prefix='lcv-seed-')
    try:
        for f in ('Cargo.toml', 'Cargo.lock', 'rust-toolchain', 'build.rs', 'README.md'):
            if os.path.exists('/repo/' + f):
                shutil.copy2('/repo/' + f, d)
        shutil.copytree('/repo/src', d + '/src')
        r = subprocess.run('patch -p1 -s -f -d %s -i %s/patch.diff' % (d, dst), shell=True, capture_output=True, text=True)
        if r.returncode:
            print(tag, 'patch no longer applies')
            return
        man = json.load(open(os.path.join(V, 'MANIFEST.json')))
        fired, incon = {}, {}
        env = dict(os.environ, VERIF_REPO=d, VERIF_EVIDENCE_DIR=d + '/_e', VERIF_REPORT_DIR=d + '/_r')
        for c in man['checks']:
            i = c['property_id']
            p = subprocess.run([V + '/lcv', 'check', i], env=env, capture_output=True, text=True, cwd=V)
            keys = [l.strip()[10:].split('  at ')[0] for l in p.stdout.split('\n') if l.strip().startswith('violated:')]
            if p.returncode == 1:
                fired[i] = keys
            elif p.returncode == 2:
                incon[i] = p.stdout[-300:]
        meta['checks_reporting_violation'] = fired
        meta['checks_inconclusive'] = incon
        meta['caught'] = bool(fired)
        json.dump(meta, open(os.path.join(dst, 'meta.json'), 'w'), indent=1)
        own = tag[:3]
        print(tag, 'own-check' if own in fired else ('OTHER-ONLY ' + ','.join(sorted(fired)) if fired else 'MISSED'), sorted(fired), 'incon', sorted(incon))
    finally:
        t = hashlib.sha256(os.path.abspath(d).encode()).hexdigest()[:8]
        shutil.rmtree(d, ignore_errors=True)
        for f in glob.glob(os.path.join(V, '.cache', '*%s*' % t)):
            try:
                os.unlink(f)
            except OSError:
                pass


for t in sys.argv[1:]:
    one(t)
