#!/usr/bin/env python3
"""mkprompt.py seed|benign <ID> <n> — write the brief for a fresh sub-agent to /tmp/prompts/<kind>-<ID>-<n>.md.
The brief contains the property text, the scratch worktree path and the deliverables — nothing about /verif's rules."""
import json, os, sys, glob
kind, pid, n = sys.argv[1], sys.argv[2], sys.argv[3]
props = {json.loads(l)['id']: json.loads(l) for l in open('/verif/properties.jsonl')}
p = props[pid]
tag = '%s-%s' % (pid, n)
wt = '/tmp/wt-%s-%s' % (kind, tag)
out = '/tmp/%s-%s' % (kind, tag)
if kind == 'mild':
    wt = '/tmp/wt-mild-%s' % tag
    out = '/tmp/mild-%s' % tag
prev = []
if kind == 'seed':
    for m in sorted(glob.glob('/verif/seeded/%s-*/meta.json' % pid)):
        prev.append('- ' + json.load(open(m)).get('summary', '')[:260])
prop_text = 'Property %s — %s\n\n%s\n\nAnchors (where the property lives in the code):\n%s\n' % (
    pid, p['title'], p['statement'], json.dumps(p['anchors'], indent=1))
common = '''You are working on the Rust project nervosnetwork/ckb-light-client (a CKB blockchain light client). Your own scratch git
worktree of it is at %(wt)s — work ONLY there (never touch /repo or /verif, never read /verif). The sandbox has no network;
always pass --offline to cargo. The dependency build is already warm in %(wt)s/target: `cargo test --offline --no-run` rebuilds
only the crate (~35 s); the whole suite `cargo test --offline` has 115 tests and runs in ~30 s. Other agents share the machine, so
do not run more than one cargo command at a time, and NEVER use `git stash` (the stash is shared by all worktrees of the
repository; use `git diff > file`, `git checkout -- .`, `git apply file` instead). Note: the HEAD of this worktree already contains many commits starting with
"fix:" that repaired earlier defects; treat the code as it is now as the reference behaviour.

%(prop)s
''' % {'wt': wt, 'prop': prop_text}
mild = kind == 'mild'
if mild:
    kind = 'benign'
if kind == 'seed':
    body = '''Task: produce ONE realistic change to the production code (src/, not tests) that BREAKS this property while the crate still
compiles (no new warnings needed) and ALL 115 existing tests still pass. It should look like something a maintainer could plausibly
commit (a refactor, an optimisation, a "simplification", a helper extraction, a changed comparison, a moved statement, a reordered
write, a dropped or weakened check ...), not like sabotage, and it must need something SPECIFIC to manifest — a particular
interleaving, a crash or fault at a particular point, a multi-step sequence of operations, an unusual / boundary input, or two
cooperating sites that each look fine alone — not something ordinary use exposes at once. Prefer changes in the logic the anchors
name, including helpers they call. Be creative: pick a part of the property that is NOT the most obvious one.

Ideas already used for this property in earlier rounds — do NOT repeat them, find something different:
%(prev)s

Also write a demonstration: a new test (add it to the existing test modules under src/tests/ or as a #[cfg(test)] module; reuse the
helpers in src/tests/utils) that FAILS with your change and PASSES on the unmodified code, showing the property being violated
(not merely that the code differs).

Deliverables, in the directory %(out)s/ (create it):
  patch.diff  — `git diff` of the production change only (applies with `git apply` on the worktree's HEAD)
  demo.diff   — `git diff` of the demonstration test only (applies on HEAD independently of patch.diff)
  meta.json   — {"property": "%(pid)s", "summary": "<what the change does and why it breaks the property>",
                 "needs_to_manifest": "<the specific input / sequence / crash point / interleaving>",
                 "files": [...], "demo_test": "<full test path, e.g. tests::service::my_test>", "ran": ["<commands you ran and results>"]}
Before finishing verify yourself: (1) HEAD + demo.diff: the demo test passes; (2) HEAD + patch.diff + demo.diff: the demo test fails
and the 115 other tests pass. Leave the worktree in place (I will remove it). Your final message: 5 lines at most.
''' % {'prev': '\n'.join(prev) or '- (none)', 'out': out, 'pid': pid}
else:
    body = '''Task: produce ONE realistic, BEHAVIOUR-PRESERVING maintenance change to the production code (src/, not tests) in the code
that this property depends on (the functions the anchors name and the helpers they call). The property must hold exactly as before,
for every input, schedule and crash point: same accept/reject decisions, same values stored, same order of durable writes, same
locks held over the same operations, same arithmetic results (including overflow behaviour on every reachable input). Make it the
kind of commit a maintainer does every week — mix SEVERAL of: renaming locals / parameters / a private function; extracting a
helper function or inlining one; turning `match` into `if let` / `let else` / `?` or back; early returns vs nested ifs; iterator
chains vs `for` loops; reordering INDEPENDENT checks or statements (that do not change which error wins for any input — or only
between checks whose order is unobservable); changing log lines, comments, error/debug message texts; adding a new log/metric;
adding an extra (redundant but harmless) sanity check that rejects only inputs that were rejected anyway; introducing a local
variable for a repeated expression; moving a function to another place in the file or to another module; adding a field or a
method that nothing in the property depends on; `a > b` to `b < a`; `!x.is_empty()` to `x.len() > 0` and the like.
%(size)s

Deliverables, in the directory %(out)s/ (create it):
  patch.diff — `git diff` of the change (applies with `git apply` on the worktree's HEAD)
  meta.json  — {"property": "%(pid)s", "summary": "<what was restructured>", "why_equivalent": "<per hunk, why behaviour is unchanged>",
                "files": [...], "ran": ["<commands and results>"]}
Before finishing verify: the crate compiles and all 115 tests pass with the change (`cargo test --offline`). Leave the worktree in
place (I will remove it). Your final message: 5 lines at most.
''' % {'out': out, 'pid': pid, 'size': ('Keep it a SMALL everyday commit: 15-40 changed lines in 1-3 functions, e.g. rename two or three locals, add or reword a log line, extract ONE small helper (or turn one nested if into an early return), swap two independent checks; nothing clever.' if mild else 'Touch at least 3 functions and make at least 40 changed lines; be bold in restructuring but scrupulous about equivalence.')}
os.makedirs('/tmp/prompts', exist_ok=True)
f = '/tmp/prompts/%s-%s.md' % ('mild' if mild else kind, tag)
open(f, 'w').write(common + '\n' + body)
print(f, wt)
