#!/usr/bin/env python3
"""Generate /verif/MANIFEST.json from the CLAIMS table below (single source of truth)."""
import json, os, sys
VERIF = os.path.dirname(os.path.dirname(os.path.abspath(__file__)))
sys.path.insert(0, VERIF)
from rules.claims import CLAIMS, NOT_APPLICABLE  # noqa

ALL = ['C%02d' % i for i in range(1, 19)]
TRUST = ('Trusted base: rustc 1.72.1 MIR construction; library callees (ckb-types, merkle-mountain-range, rocksdb, std) '
         'behave as documented; CFG over-approximates feasible paths; heap/DB value flows are not tracked. ')

from rules.census_fns import CENSUS  # noqa


def ref_sentence(pid):
    fns = sorted({f.lstrip('+~!').split('@')[0] for f in CENSUS.get(pid, [])})
    if not fns:
        return '', ''
    short = ', '.join(x.split(' as ')[-1].replace('>::', '::') if x.startswith('<') else x for x in fns[:6]) + (' …' if len(fns) > 6 else '')
    return (' Plus %s.ref (exit census against a reviewed reference, DESIGN.md §3): for %d functions of this property (%s) every reviewed '
            'rejection is still present with the same trigger, every success / state-changing call carries at least the reviewed '
            'conditions, and reviewed value expressions and durable writes are unchanged. A mere difference of description (helper '
            'boundaries, flags, loops vs adaptors, combinators) is not reported: the rule fires when a reviewed decision / result / '
            'effect is no longer made, when a way to succeed or to perform an effect bypasses a decision every reviewed way passed, or '
            'when a returned value is computed differently (engine/facts.py, DESIGN.md §12).' % (pid, len(fns), short),
            ' The .ref rule is relative to the reviewed reference (rules/census_table.json); that the reference is right was '
            'established by reading, not by the checker; a re-arrangement that keeps every reviewed decision, result and effect on '
            'every path is not seen by it (the explicit guard / order / lock rules are the ones that look at placement).')


checks = []
for pid in ALL:
    if pid not in CLAIMS:
        continue
    c = dict(CLAIMS[pid])
    _t, _n = ref_sentence(pid)
    if '.ref' not in c['text']:
        c['text'] = c['text'] + _t
    c['note'] = c['note'] + _n
    if _t and 'exit census' not in c['technique']:
        c['technique'] = c['technique'] + '; exit census (returns, control-dependence conditions, effects; helpers inlined at MIR level) compared with a reviewed reference'
    checks.append({
        'property_id': pid,
        'quick_cmd': './lcv check %s --tier quick' % pid,
        'thorough_cmd': './lcv check %s --tier thorough' % pid,
        'evidence_file': 'evidence/%s.json' % pid,
        'replay_cmd_template': './lcv explain {path}',
        'engine': 'lcv',
        'level_claimed': {
            'category': 'other',
            'text': c['text'],
            'design_ref': 'DESIGN.md §5 ' + pid,
        },
        'level_note': TRUST + c['note'],
        'technique': c['technique'],
    })
na = [{'property_id': pid, 'reason': NOT_APPLICABLE[pid]} for pid in ALL if pid not in CLAIMS]
missing = [pid for pid in ALL if pid not in CLAIMS and pid not in NOT_APPLICABLE]
assert not missing, missing
m = {
    'version': 1,
    'setup_cmd': './lcv setup',
    'hooks': {
        'guard': 'ckb_light_client_verif',
        'enable': 'none needed: the checks are static (MIR of the unmodified crate); no instrumentation exists in /repo',
        'baseline_off_cmd': 'cd /repo && cargo test --workspace --no-fail-fast --offline',
        'source_commits': [],
        'add_only': True,
    },
    'engines': [{
        'name': 'lcv',
        'path': 'lcv',
        'serves_properties': [c['property_id'] for c in checks],
        'kind_free_text': 'repository-specific static analysis: all-paths rules (guard-flow typestate, dominance, who-may-call, '
                          'lock regions, variant tables, layout agreement, abort-site discharge, exit census against a reviewed reference) over rustc-1.72.1 MIR of the real bin target',
    }],
    'checks': checks,
    'not_applicable': na,
    'notes': 'Every check decides named structural clauses (necessary conditions) of its property for all paths of the analysed '
             'functions; value clauses are listed as not decided in each evidence file (coverage.not_decided) and in DESIGN.md.',
}
with open(os.path.join(VERIF, 'MANIFEST.json'), 'w') as f:
    json.dump(m, f, indent=1)
print('MANIFEST.json: %d checks, %d not_applicable' % (len(checks), len(na)))
