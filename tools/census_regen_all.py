#!/usr/bin/env python3
"""census_regen_all.py — regenerate every rules/census_table.json entry whose function exists (after an engine change that alters
the normal form; review aid, never run by checks).  Prints which entries changed."""
import json, subprocess, sys, os, shutil
V = os.path.dirname(os.path.dirname(os.path.abspath(__file__)))
sys.path.insert(0, V)
from engine import program
P = program.load(quiet=True)
T = os.path.join(V, 'rules', 'census_table.json')
old = json.load(open(T))
keys = [k for k in old if P.has(k)]
r = subprocess.run([sys.executable, os.path.join(V, 'tools', 'census_gen.py')] + keys, capture_output=True, text=True)
if r.returncode:
    print(r.stdout[-500:], r.stderr[-2000:])
    sys.exit(1)
new = json.load(open(T))
ch = [k for k in keys if json.dumps(old[k].get('exits'), sort_keys=True) != json.dumps(new[k].get('exits'), sort_keys=True)]
print(len(keys), 'entries;', len(ch), 'changed:', ch)
print('stale (function gone):', [k for k in old if not P.has(k)])
