#!/usr/bin/env python3
"""mkmutant.py <name> 'file:::old:::new' [more edits...]  -> selftest/mutants/<name>.patch (unified diff against /repo HEAD)"""
import os, sys, subprocess, tempfile, shutil
name = sys.argv[1]
d = tempfile.mkdtemp(prefix='mkmut-')
try:
    subprocess.check_call(['git', '-C', '/repo', 'worktree', 'add', '--detach', '-q', d + '/r', 'HEAD'])
    r = d + '/r'
    for spec in sys.argv[2:]:
        f, old, new = spec.split(':::')
        nth = None
        if old.startswith('#'):
            nth, old = old[1:].split('#', 1)
            nth = int(nth)
        p = os.path.join(r, f)
        s = open(p).read()
        if nth is None:
            assert s.count(old) == 1, (f, s.count(old), old[:60])
            s = s.replace(old, new)
        else:
            parts = s.split(old)
            s = old.join(parts[:nth]) + new + old.join(parts[nth:])
        open(p, 'w').write(s)
    out = subprocess.check_output(['git', '-C', r, 'diff'], text=True)
    assert out.strip(), 'empty diff'
    open('/verif/selftest/mutants/%s.patch' % name, 'w').write(out)
    print('wrote', name, len(out.split('\n')), 'lines')
finally:
    subprocess.call(['git', '-C', '/repo', 'worktree', 'remove', '--force', d + '/r'])
    shutil.rmtree(d, ignore_errors=True)
