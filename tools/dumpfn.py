#!/usr/bin/env python3
"""Dump the raw MIR text of bodies whose raw or canonical name contains a substring (debug aid)."""
import sys, re
pat = sys.argv[1]
path = sys.argv[2] if len(sys.argv) > 2 else '/verif/.cache/check.mir'
out = False
for line in open(path, errors='replace'):
    if line.startswith('fn '):
        out = pat in line.split('(')[0] or pat in line[:300]
    if out:
        sys.stdout.write(line)
