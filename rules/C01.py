"""C01 — trusted chain state changes only on a fully verified last-state proof (DESIGN §5 C01)."""
from engine.rules import Inconclusive
import re
from engine.defuse import DefUse

EXPLANATION = (
    'Static all-paths rules over the MIR of the real binary: (r1) who-may-call for the writers of the persisted tip / '
    'last-N and of a peer\'s prove state; (r2) in SendLastStateProofProcess::execute the call of commit_prove_state is '
    'reachable only in worlds where each of the listed checks ran and returned its accepting outcome (path-sensitive '
    'typestate over the guard result); (r3) each check function returns success only after its own primitive checks '
    'accepted; (r4) no call that is not behind all unconditional guards can reach a trusted-state writer; (r5) read side: no RPC method or '
    'StorageWithChainData provider reaches a reader of a peer\'s announced last state or outstanding request, and '
    'find_header_in_proved_state reads only the prove state.')
NOT_DECIDED = ('Value clauses: that check_if_response_is_matched computes the right section boundaries, that sampled '
               'difficulties match, any arithmetic inside the checks, and the MMR/PoW libraries themselves.')

EXEC = 'SendLastStateProofProcess::execute'
COMMIT = 'LightClientProtocol::commit_prove_state'

UNCOND = [
    ('PeerState::get_prove_request', 'Some'),
    ('ProveRequest::is_same_as', 'true'),
    ('check_if_response_is_matched', 'Ok'),
    ('LightClientProtocol::check_chain_root_for_headers', 'Ok'),
    ('LightClientProtocol::check_pow_for_headers', 'Ok'),
    ('verify_mmr_proof', 'Ok'),
]


def run(ctx):
    P = ctx.prog
    ctx.explanation, ctx.not_decided = EXPLANATION, NOT_DECIDED

    # ---- r1 who-may-call ---------------------------------------------------------------
    ctx.only_callers('C01.r1', 'Storage::update_last_state',
                     {'Storage::init_genesis_block', COMMIT, 'LightClientProtocol::update_prove_state_to_child'}, 3)
    # (the last n headers are written by update_last_state itself, in the same batch as the tip: fix F45)
    ctx.only_callers('C01.r1', 'Storage::last_n_headers_value', {'Storage::update_last_state'}, 1)
    ctx.only_callers('C01.r1', 'Peers::update_prove_state',
                     {COMMIT, 'LightClientProtocol::update_prove_state_to_child',
                      'LightClientProtocol::get_last_state_proof'}, 3)
    ctx.only_callers('C01.r1', 'PeerState::receive_last_state_proof', {'Peers::update_prove_state'}, 1)
    ctx.only_callers('C01.r1', COMMIT, {EXEC}, 1)
    ctx.only_callers('C01.r1', 'LightClientProtocol::update_prove_state_to_child', {'SendLastStateProcess::execute'}, 1)
    ctx.only_callers('C01.r1', 'Storage::rollback_to_block', {COMMIT}, 1)
    # discovered writers: every function that puts LAST_STATE_KEY / LAST_N_HEADERS_KEY
    writers = meta_key_writers(P, ('LAST_STATE_KEY', 'LAST_N_HEADERS_KEY'))
    ctx.floor('C01.r1', 'functions referring to LAST_STATE_KEY/LAST_N_HEADERS_KEY with a DB put', len(writers), 1)
    for w in sorted(writers):
        allowed_w = ('Storage::update_last_state', 'Storage::init_genesis_block')
        ctx.ob('C01.r1', w, 'writes trusted-tip meta key', w in allowed_w, allowed=list(allowed_w))

    # ---- r2 guard flow in execute ---------------------------------------------------------
    F = ctx.body(EXEC)
    sinks = ctx.sites(F, COMMIT, 1)
    for g, acc in UNCOND:
        ctx.guard('C01.r2', F, g, acc, sinks, unconditional=True)
    # continuity: the last-N section (tail of `headers`) on every path, the reorg section (head) whenever reorg_count != 0
    cch = P.call_sites(F, 'check_continuous_headers')
    cfg = P.cfg(F)
    sb = sinks[0][0]
    du = DefUse(F)
    cover = {}
    for b, t in cch:
        org = du.origins(t.args[0], stop_at_calls=False)
        idx = [F.blocks[o[2]].term.callee for o in org if o[0] == 'call' and 'Index' in o[1]]
        kinds = set()
        for k in idx:
            if 'RangeTo' in k and 'Inclusive' not in k:
                kinds.add('head')
            elif 'RangeFrom' in k:
                kinds.add('tail')
            elif 'RangeFull' in k:
                kinds |= {'head', 'tail'}
            else:
                kinds.add('inner')
        if not idx:
            kinds = {'head', 'tail'}      # the whole vector
        cover[b] = kinds
    if not cch:
        ctx.ob('C01.r2', F.name, 'the last-N section is checked for continuity on every path to commit_prove_state', False, at=sinks[0][1], detail='no check_continuous_headers call')
    else:
        tails = {b for b, k in cover.items() if 'tail' in k}
        heads = {b for b, k in cover.items() if 'head' in k}
        ctx.ob('C01.r2', F.name, 'the last-N section is checked for continuity on every path to commit_prove_state',
               bool(tails) and sb not in cfg.reachable_from([cfg.entry], removed_nodes=tails), at=cch[0][1].span, tail_checks=len(tails))
        # reorg section: with the head-covering checks removed, commit is reachable only when reorg_count == 0
        nz = [c for c in ctx.cmp_stmts(F) if c[2] in ('Ne', 'Eq') and c[4] == 'const 0_usize' and F.debug.get('reorg_count') and
              any(F.debug['reorg_count'] == '_%s' % x for x in __import__('re').findall(r'_(\d+)', ' '.join(map(str, reach_copy(du, c[3])))))]
        from engine.flow import GuardFlow
        gf = GuardFlow(F, cfg)
        ok_head = False
        if heads:
            if sb not in cfg.reachable_from([cfg.entry], removed_nodes=heads):
                ok_head = True
            else:
                for c in nz:
                    acc = 'false' if c[2] == 'Ne' else 'true'      # outcome meaning reorg_count == 0
                    r, _ = gf.check_sink((c[0], c[1]), acc, sb, unconditional=False, removed=heads)
                    # the test must also be on every such path: without head checks and without the test, commit unreachable
                    if r and sb not in cfg.reachable_from([cfg.entry], removed_nodes=heads | {c[0]}):
                        ok_head = True
        ctx.ob('C01.r2', F.name, 'the reorg section is checked for continuity whenever it is non-empty', ok_head, at=cch[0][1].span, head_checks=len(heads),
               reorg_count_tests=len(nz))
        ctx.guard('C01.r2', F, 'check_continuous_headers', 'Ok', sinks, unconditional=False)
    ctx.guard('C01.r2', F, 'verify_tau', 'Ok(true)', sinks, unconditional=False)
    ctx.guard('C01.r2', F, 'verify_total_difficulty', 'Ok', sinks, unconditional=False)

    # ---- r3 guarded success inside the guards --------------------------------------------
    G = ctx.body('verify_mmr_proof')
    succ = ctx.success_sinks(G)
    ctx.floor('C01.r3', 'success returns of verify_mmr_proof', len(succ), 1)
    ctx.guard('C01.r3', G, '<VerifiableHeader as VerifiableHeaderPatch>::patched_is_valid', 'true', succ)
    ctx.guard('C01.r3', G, lambda k, t: k.endswith('MMRProof::verify') or k.endswith('MerkleProof::verify'), 'Ok(true)', succ, gname='MMRProof::verify')
    # digest.verify()? inside the mapping closure, and the collected Result is matched
    clos = [c for c in P.closures_of(G) if P.call_sites(c, lambda k, t: k.endswith('HeaderDigest>::verify'))]
    ctx.floor('C01.r3', 'closure of verify_mmr_proof calling HeaderDigest::verify', len(clos), 1)
    for c in clos:
        ctx.fn(c)
        ctx.guard('C01.r3', c, lambda k, t: k.endswith('HeaderDigest>::verify'), 'Ok', ctx.success_sinks(c), gname='HeaderDigest::verify')
    ctx.guard('C01.r3', G, lambda k, t: 'FromIterator' in k or k.endswith('::collect'), 'Ok', succ, gname='collect::<Result<Vec<_>,String>>',
              which=lambda b, t: 'Result<' in (G.locals.get(int(t.dest.strip()[1:]), '') if t.dest and t.dest.strip()[1:].isdigit() else ''))

    H = ctx.body('LightClientProtocol::check_verifiable_header')
    hs = ctx.success_sinks(H)
    ctx.guard('C01.r3', H, lambda k, t: k.endswith('PowEngine>::verify') or k.endswith('PowEngine::verify'), 'true', hs, gname='PowEngine::verify')
    ctx.guard('C01.r3', H, '<VerifiableHeader as VerifiableHeaderPatch>::patched_is_valid', 'true', hs)

    for fname, g, gname in (
        ('LightClientProtocol::check_pow_for_headers', lambda k, t: k.endswith('PowEngine>::verify') or k.endswith('PowEngine::verify'), 'PowEngine::verify'),
        ('LightClientProtocol::check_chain_root_for_headers', '<VerifiableHeader as VerifiableHeaderPatch>::patched_is_valid', None),
        ('check_continuous_headers', '<HeaderView as HeaderUtils>::is_parent_of', None),
    ):
        B = ctx.body(fname)
        ctx.loop_guard('C01.r3', B, g, 'true', gname)

    # ---- r4 rejection leaves state unchanged ----------------------------------------------
    trusted_sinks = {'Storage::update_last_state', 'Peers::update_prove_state',
                     'Storage::rollback_to_block'}
    gblocks = []
    for g, acc in UNCOND:
        gs = P.call_sites(F, g)
        if gs:                      # a missing guard was reported by r2 above
            gblocks.append(gs[0][0])
    n = 0
    for bid, key, t in P.call_keys(F):
        if all(cfg.dominates(gb, bid) and gb != bid for gb in gblocks):
            continue
        if not P.has(key):
            continue
        reach = P.transitive_callees(key) | {key}
        hit = sorted(reach & trusted_sinks)
        n += 1
        allowed_early = key in ('LightClientProtocol::process_last_state', 'LightClientProtocol::get_last_state_proof')
        ctx.ob('C01.r4', F.name, 'call %s before all checks cannot write trusted state' % key,
               (not hit) or allowed_early, at=t.span, reaches=hit,
               exception=('announced-last-state branch (unknown proof with empty proof list)' if allowed_early and hit else None))
    ctx.floor('C01.r4', 'crate-local calls not dominated by all unconditional guards', n, 5)
    # the exception is confined to the !is_same_as branch
    for key in ('LightClientProtocol::process_last_state', 'LightClientProtocol::get_last_state_proof'):
        for bid, t in P.call_sites(F, key):
            ctx.guard('C01.r4', F, 'ProveRequest::is_same_as', 'false', [(bid, t.span, key)], unconditional=True)

    # ---- r5 read side: what is SERVED as trusted comes from proved state or the store ---------------
    # A peer's announced (unproved) last state lives in PeerState.last_state; only the sync state machine may read it.
    ctx.only_callers('C01.r5', 'PeerState::get_last_state',
                     {'LightClientProtocol::get_last_state_proof', 'Peers::get_peers_which_have_timeout', 'SendLastStateProcess::execute',
                      'LightClientProtocol::process_last_state'}, 3)   # process_last_state: compared with the incoming header only (F64)
    unproved = {'PeerState::get_last_state', 'LastState::header', 'LastState::total_difficulty', 'PeerState::get_prove_request', 'ProveRequest::get_last_header'}
    servers = [b.name for b in P.bodies if b.file and b.file.endswith('src/service.rs') and '{closure' not in b.name and ' as ' in b.name and 'Rpc>' in b.name]
    servers += [b.name for b in P.bodies if '{closure' not in b.name and b.name.startswith('<StorageWithChainData as ')]
    ctx.floor('C01.r5', 'RPC methods and StorageWithChainData providers', len(servers), 20)
    # one reviewed exception: NetRpc::get_peers reports per-peer sync diagnostics, explicitly labelled `requested_best_known_header`
    diagnostics = {'<NetRpcImpl as NetRpc>::get_peers': {'PeerState::get_prove_request', 'ProveRequest::get_last_header'}}
    for sname in sorted(set(servers)):
        hit = sorted((P.transitive_callees(sname) & unproved) - diagnostics.get(sname, set()))
        ctx.ob('C01.r5', sname, 'serves nothing derived from a peer\'s announced (unproved) last state or outstanding request', not hit, reaches=hit)
    FH = ctx.body('Peers::find_header_in_proved_state')
    pcalls = sorted({k for b in [FH] + P.closures_of(FH) for _, k, _ in P.call_keys(b) if k.startswith(('PeerState::', 'LastState::', 'ProveRequest::'))})
    ctx.ob('C01.r5', FH.name, 'peer headers served to get_header / verification come only from the prove state', pcalls == ['PeerState::get_prove_state'], peer_state_reads=pcalls)
    # reviewed reference of the checker functions' decision structure (engine/census.py)
    from rules import census_fns
    # r6 (F61-F63): shape of what is committed
    Xb0 = ctx.body(EXEC)
    xdu = DefUse(Xb0)
    def _is_pair_with_last(t):
        # the argument is built from clones (not a slice of the headers vector), one of them of the last header
        org = xdu.origins(t.args[0])
        cl = [o for o in org if o[0] == 'call' and o[1].endswith('Clone>::clone')]
        if not cl or any(o[0] == 'call' and o[1].endswith('Index>::index') for o in org):
            return False
        for o in cl:
            ct = Xb0.blocks[o[2]].term
            if any(x[0] == 'call' and x[1].endswith('SendLastStateProofReader::last_header') for x in xdu.origins(ct.args[0], stop_at_calls=False)) and \
                    any(x[0] == 'call' and x[1].endswith('VerifiableHeader::header') for x in xdu.origins(ct.args[0])):
                return True
        return False
    tail = [(b, t) for b, t in P.call_sites(Xb0, 'check_continuous_headers') if _is_pair_with_last(t)]
    ctx.ob('C01.r6', EXEC, 'the last header is checked to be the child of the last-N headers before the proof is committed', bool(tail),
           failing_history=None if tail else 'SendLastState(8\') with parent_hash = hash(3) (made by the peer); the honest [0,8) response + proof is accepted, 8\' becomes the proved tip')
    if tail:
        ctx.guard('C01.r6', Xb0, lambda k, t, _ts=[t for _, t in tail]: any(t is x for x in _ts), 'Ok', ctx.sites(Xb0, COMMIT, 1), unconditional=False,
                  gname='check_continuous_headers([last of last-N, last header])')
    Xb = ctx.body(EXEC)
    flt = [c for c in P.closures_of(Xb, transitive=False)
           if any(k.endswith('HeaderView::number') for _, k, _ in P.call_keys(c))
           and any(st.kind == 'assign' and st.lhs.strip() == '_0' and re.match(r'^Lt\(', (st.rhs or '').strip()) for blk in c.blocks.values() if not blk.cleanup for st in blk.stmts)]
    flt += [c2 for c in P.closures_of(Xb, transitive=False) for c2 in P.closures_of(c, transitive=False)
            if any(k.endswith('HeaderView::number') for _, k, _ in P.call_keys(c2))
            and any(st.kind == 'assign' and st.lhs.strip() == '_0' and re.match(r'^Lt\(', (st.rhs or '').strip()) for blk in c2.blocks.values() if not blk.cleanup for st in blk.stmts)]
    ctx.ob('C01.r6', EXEC, 'previous last headers are prepended only below the first new last-N header (no repeated or replaced heights in the remembered headers)', bool(flt),
           failing_history=None if flt else 'last_n = 10; block 5 proved, then block 8 (request starts at an older remembered block): remembered headers [3,4,0,1,..,7]; after a short fork '
           'the leading 3,4 are replaced blocks still served by get_header')
    CMb = ctx.body('check_if_response_is_matched')
    census_fns.requires(ctx, 'C01.r6', 'check_if_response_is_matched', r'^Err\(Status::InvalidReorgHeaders\)', r'arg1 < TakeWhile::count|TakeWhile::count\(.*\) > arg1',
                        'a reorg section longer than last-N is rejected (also when it starts at block 1)',
                        'last_n = 3, start 15: reorg headers [1..14] accepted and all 14 kept in the prove state', some=True)
    census_fns.run(ctx, 'C01')


def meta_key_writers(P, consts):
    """Top-level functions that name one of the Meta-key constants and perform a DB/batch put."""
    out = set()
    for b in P.bodies:
        if not any(P.const_uses(b, c) for c in consts):
            continue
        top = P.parent_fn(b)
        keys = [k for _, k, _ in P.call_keys(top)]
        for c in P.closures_of(top):
            keys += [k for _, k, _ in P.call_keys(c)]
        if any(k.endswith('>::put') or k in ('Batch::put', 'Batch::put_kv') for k in keys):
            out.add(top.name)
    return out


def reach_copy(du, operand):
    import re
    out = set()
    stack = [int(x) for x in re.findall(r'_(\d+)', operand)]
    while stack:
        l = stack.pop()
        if l in out:
            continue
        out.add(l)
        for kind, bid, obj in du.defs.get(l, []):
            if kind == 'assign' and re.match(r"^(move |copy )?_\d+$", obj.rhs.strip()):
                stack += [int(x) for x in re.findall(r'_(\d+)', obj.rhs)]
    return {'_%d' % x for x in out}
