"""C14 — difficulty checks: only the last sentence ("they never abort, whatever numbers a peer supplies") is decided."""
import re
from engine.rules import Inconclusive
from engine import panics
from rules.C10 import decide_sites
from engine import census

EXPLANATION = (
    'The acceptance envelope of the epoch-difficulty checks is arithmetic and is NOT decided. Decided: the closed set of functions '
    'that implement verify_tau / verify_total_difficulty (and everything they call inside the crate) contains no abort-capable site '
    '(checked-arithmetic / bounds / division assert, explicit panic, unwrap/expect, panicking U256 operator) that is not discharged by a '
    'guard idiom or a reviewed entry — with every parameter treated as peer-supplied (they are header fields).')
NOT_DECIDED = ('Completeness and soundness of the envelope: that every total difficulty reachable under the per-epoch bound tau is accepted '
               'and every total outside it rejected (value clause over epoch sequences).')

ROOTS = ['verify_tau', 'verify_total_difficulty']
EXPECT = {'verify_tau', 'verify_total_difficulty', 'EpochDifficultyTrend::new', 'EpochDifficultyTrend::check_tau', 'EpochDifficultyTrend::calculate_tau_exponent',
          'EpochDifficultyTrend::split_epochs', 'EpochDifficultyTrend::check_total_difficulty_limit', 'EpochCountGroupByTrend::subtract1',
          'EpochDifficultyTrendDetails::remove_last_epoch'}


class AllWire(panics.Taint):
    def wire_origins(self, body, o):
        for x in o:
            if x[0] == 'param':
                return True
        return super().wire_origins(body, o)


def run(ctx):
    P = ctx.prog
    ctx.explanation, ctx.not_decided = EXPLANATION, NOT_DECIDED
    bodies, tops = panics.reachable_bodies(P, ROOTS)
    missing = EXPECT - tops
    if missing:
        raise Inconclusive('ANCHOR-MISSING: difficulty-check functions not found in the call closure: %s' % sorted(missing))
    for b in bodies:
        ctx.fn(b)
    T = AllWire(P, bodies)
    Dz = panics.Discharger(P, T)
    sites = []
    for b in bodies:
        sites += panics.census(P, b)
    ctx.floor('C14.abort', 'abort-capable sites in the difficulty checks', len(sites), 20)
    counts, used = decide_sites(ctx, 'C14.abort', sites, Dz, all_wire=True)
    ctx.note('sites: %d %s' % (len(sites), counts))
    # no explicit panic entry point may remain at all in this closed set
    for s in sites:
        if s.kind == 'panic':
            ctx.ob('C14.abort', s.body.name, 'no explicit panic in the difficulty checks', False, at=s.span)
    # results are propagated: both roots return Result and every caller inspects it
    for r in ROOTS:
        B = ctx.body(r)
        ctx.ob('C14.abort', r, 'errors are reported through the return value', 'Result<' in B.ret, ret=B.ret)
    # callers: verify_tau / verify_total_difficulty are only used by the last-state-proof process, whose use is guard-checked in C01.r2
    ctx.only_callers('C14.abort', 'verify_tau', {'SendLastStateProofProcess::execute'}, 1)
    ctx.only_callers('C14.abort', 'verify_total_difficulty', {'SendLastStateProofProcess::execute'}, 1)

    # reviewed reference of the envelope arithmetic (decision structure + value expressions, helpers inlined)
    from rules import census_fns
    census_fns.run(ctx, 'C14')
