"""C10 reviewed table: abort-capable sites on handler paths that the recognised idioms do not discharge.

Every entry was confirmed by reading the code (see the line of reasoning in `why`).  Entries are
(function, regex on the line-free site descriptor, why, requires) where `requires` lists facts that must still
hold for the reasoning to stand: 'call:<callee key suffix>' or 'cmp:<Op(a, b)>' (rendered through source names) must
DOMINATE the site.  If a required fact disappears (a guard was deleted or moved) the entry no longer applies and the
site is reported.  A site that matches no entry and no idiom is a VIOLATION.
"""

R = []


def add(fn, rx, why, requires=()):
    R.append((fn, rx, why, tuple(requires)))


SYNC = '<SyncProtocol as CKBProtocolHandler>::received::{closure#0}'
# ---- synchronizer ------------------------------------------------------------------------------------------------
INV_MB = ('the in-memory matched-blocks map is only ever loaded from the earliest stored record (every Peers::add_matched_blocks call takes '
          'get_earliest_matched_blocks()), and both are cleared together under the matched-blocks lock (C17.L1)')
add(SYNC, r'^panic:assert_failed$', 'assert_eq!(blocks.len(), db_blocks.len()): ' + INV_MB + '; both sides are de-duplicated by hash (the stored record has one entry per matched FILTER with peer-chosen hashes: a repeated hash gives two entries, seeded C10-6)', ['call:Peers::all_matched_blocks_downloaded', 'operand:HashSet::len'])
add(SYNC, r'^panic:panic$', 'assert!(db_blocks.contains(hash)): ' + INV_MB, ['call:Peers::all_matched_blocks_downloaded'])
add(SYNC, r'^expect\(Storage::get_earliest_matched_blocks\(\.\.\)\)$', 'reached only when the in-memory map is non-empty: ' + INV_MB, ['call:HashMap::is_empty'])
add(SYNC, r'^overflow\(\+\)\(start_number, blocks_count\)$', 'both values are read back from the stored MATCHED_BLOCKS record written by add_matched_blocks (store counters)')
add(SYNC, r'^overflow\(-\)\(Add\(start_number, blocks_count\)\.0, 1_u64\)$', 'blocks_count >= 1: add_matched_blocks asserts a non-empty record and BlockFiltersProcess records min(blocks_count, limit) with limit >= 1')
add('Storage::add_matched_blocks', r'^panic:panic$', 'assert!(!matched_blocks.is_empty()): the only caller BlockFiltersProcess::execute calls it under possible_match_blocks_len != 0')

# ---- the deliberate abort --------------------------------------------------------------------------------------------
add('SendLastStateProofProcess::execute', r'^panic:panic_fmt$', 'the documented long-fork abort; guarded by ProveRequest::if_long_fork_detected (C04.r3)',
    ['call:ProveRequest::if_long_fork_detected'])
add('Peers::required_peers_count', r'^panic:panic_fmt$', 'configuration check: max_outbound_peers is a local config value, not peer data')

# ---- filter protocol ---------------------------------------------------------------------------------------------------
add('FilterProtocol::check_filters_data', r'^overflow\(\+\)\(start_number, limit\)$', 'start_number == min_filtered_block_number + 1 was checked by the only caller before the call (C06.r1); limit <= number of filters')
add('FilterProtocol::check_filters_data::{closure#0}', r'^expect\(<\[u8\] as TryInto>::try_into\(\.\.\)\)$', 'the slice comes from get(..8): exactly 8 bytes')
add('FilterProtocol::check_filters_data', r'^expect\(<\[u8\] as TryInto>::try_into\(\.\.\)\)$', 'the slice comes from get(..8): exactly 8 bytes')
add('FilterProtocol::check_filters_data', r'^gcs\(', 'the Result of match_any is matched and an Err is turned into MalformedProtocolMessage; the n_elements * M overflow inside the library is pre-checked with checked_mul',
    ['call:checked_mul'])
add('FilterProtocol::should_ask', r'^unwrap\(Result::unwrap\(\.\.\)\)$', 'Option<Instant>::unwrap evaluated only on the right of `last_ask_time.is_none() ||`, under the matched-blocks lock that serialises its writer (C17)')
TD_INV = ('header admitted through LastState::new / ProveState only after checked_total_difficulty() returned Some (rule C10.td)')
add('FilterProtocol::try_send_get_block_filters::{closure#0}', r'^total_difficulty\(', TD_INV)
add('FilterProtocol::try_send_get_block_filters', r'^total_difficulty\(', TD_INV)

BFH = 'BlockFilterHashesProcess::execute'
BR = ('branch condition: start_number <= finalized_check_point_number && cached_check_point_number < start_number && start_number <= next_cached_check_point_number')
add(BFH, r'^Index\(cached_check_points, [01]_usize\)$', BR + ' => cached index + 1 <= finalized index, so both check points are stored',
    ['cmp:Le(start_number, finalized_check_point_number)', 'cmp:Lt(cached_check_point_number, start_number)'])
add(BFH, r'^overflow\(-\)\(diff, 2_usize\)$', 'else-branch of start_number == cached_check_point_number + 1 with cached_check_point_number < start_number => diff >= 2',
    ['cmp:Lt(cached_check_point_number, start_number)'])
add(BFH, r'^Index\(cached_hashes, index\)$', 'start_number <= cached_last_number + 1 = cached_check_point_number + len + 1 was checked => index = diff - 2 <= len - 1',
    ['cmp:Gt(start_number, Add(cached_last_number, 1_u64).0)'])
add(BFH, r'^overflow\(-\)\(start_number, 1_u64\)$', 'cached_check_point_number < start_number => start_number >= 1 (format argument)', ['cmp:Lt(cached_check_point_number, start_number)'])
add(BFH, r'^overflow\(\+\)\(start_number, block_filter_hashes\.len\(\)\)$', 'start_number <= finalized_check_point_number (a stored check point number, < 2^45)', ['cmp:Le(start_number, finalized_check_point_number)'])
add(BFH, r'^overflow\(-\)\(Add\(start_number, block_filter_hashes\.len\(\)\)\.0, 1_u64\)$', 'start_number >= 1', ['cmp:Lt(cached_check_point_number, start_number)'])
add(BFH, r'^overflow\(-\)\(block_filter_hashes\.len\(\), diff\)$', 'diff = end - next = start + len - 1 - next <= len - 1 because start_number <= next_cached_check_point_number',
    ['cmp:Le(start_number, next_cached_check_point_number)'])
add(BFH, r'^overflow\(-\)\(Sub\(block_filter_hashes\.len\(\), diff\)\.0, 1_usize\)$', 'len - diff = next - start + 1 >= 1', ['cmp:Le(start_number, next_cached_check_point_number)'])
add(BFH, r'^Index\(block_filter_hashes, index\)$', 'index = next - start < len (end_number > next_cached_check_point_number in this branch)', ['cmp:Ge(end_number, next_cached_check_point_number)'])
add(BFH, r'^overflow\(-\)\(start_number, Add\(cached_check_point_number, 1_u64\)\.0\)$', 'cached_check_point_number < start_number', ['cmp:Lt(cached_check_point_number, start_number)'])
add(BFH, r'^Index\(cached_hashes, _\)$', 'index_offset = start - cached - 1 <= len because start_number <= cached_last_number + 1 was checked',
    ['cmp:Gt(start_number, Add(cached_last_number, 1_u64).0)'])
add(BFH, r'^overflow\(\+\)\(index_offset, index\)$', 'indices into in-memory vectors')
add(BFH, r'^overflow\(\+\)\(start_number, Add\(index_offset, index\)\.0\)$', 'start_number <= finalized check point number; format argument', ['cmp:Le(start_number, finalized_check_point_number)'])
add(BFH, r'^overflow\(-\)\(block_filter_hashes\.len\(\), excess_size\)$', 'excess_size = end - next = the diff bounded above', ['cmp:Le(start_number, next_cached_check_point_number)'])
add(BFH, r'^overflow\(\+\)\(end_number, 1_u64\)$', 'end_number < next_cached_check_point_number in this branch (a stored check point number)', ['cmp:Lt(end_number, next_cached_check_point_number)'])

BF = 'BlockFiltersProcess::execute'
add(BF, r'^expect\(peer_state_opt\)$', 'dominated by `if peer_state_opt.is_none() { return }`', ['call:Option::is_none'])
add(BF, r'^expect\(Option::cloned\(\.\.\)\)$', 'start_number <= finalized_check_point_number and start_number == cached_check_point_number + 1 => the cached check point index is finalized and stored',
    ['cmp:Le(start_number, finalized_check_point_number)'])
add(BF, r'^overflow\(-\)\(Sub\(start_number, cached_check_point_number\)\.0, 2_usize\)$', 'start_number > cached_check_point_number (else returned Ignore) and != cached_check_point_number + 1 => difference >= 2',
    ['cmp:Le(start_number, cached_check_point_number)'])
add(BF, r'^Index\(cached_block_filter_hashes, start_index\)$', 'guarded by `start_index >= cached_block_filter_hashes.len()` => return (fix F25)', ['cmp:Ge(start_index, cached_block_filter_hashes.len())'])
add(BF, r'^VecOp\(cached_block_filter_hashes, _\)$', 'drain(..=start_index) with start_index < len (same guard as the index above)', ['cmp:Ge(start_index, cached_block_filter_hashes.len())'])
add(BF, r'^overflow\(-\)\(Sub\(start_number, finalized_check_point_number\)\.0, 2_usize\)$', 'else-branch of start_number <= finalized and of start_number == finalized + 1 => difference >= 2',
    ['cmp:Le(start_number, finalized_check_point_number)'])
add(BF, r'^VecOp\(latest_block_filter_hashes, _\)$', 'drain(..=start_index) after `start_index >= latest_block_filter_hashes.len()` => return', ['cmp:Ge(start_index, latest_block_filter_hashes.len())'])
PIN = 'start_number == min_filtered_block_number + 1 (checked on entry), i.e. a store counter'
add(BF, r'^overflow\(\+\)\(start_number, index\)$', PIN + '; index < limit', ['cmp:Ne(Add(min_filtered_block_number, 1_u64).0, start_number)'])
add(BF, r'^overflow\(-\)\(start_number, 1_u64\)$', PIN + ' >= 1', ['cmp:Ne(Add(min_filtered_block_number, 1_u64).0, start_number)'])
add(BF, r'^overflow\(\+\)\(Sub\(start_number, 1_u64\)\.0, actual_blocks_count\)$', PIN, ['cmp:Ne(Add(min_filtered_block_number, 1_u64).0, start_number)'])
add(BF, r'^overflow\(\+\)\(filtered_block_number, 1_u64\)$', PIN, ['cmp:Ne(Add(min_filtered_block_number, 1_u64).0, start_number)'])

add('SendBlocksProofProcess::execute_internally', r'^SliceOp\(block_hashes, LightClientProtocol::init_blocks_in_transit_per_peer\(\.\.\)\)$',
    'chunk size is the non-zero constant INIT_BLOCKS_IN_TRANSIT_PER_PEER (only cfg(test) code can change it)')

# ---- last state proof -------------------------------------------------------------------------------------------------
EX = 'SendLastStateProofProcess::execute'
POST = ('postcondition of check_if_response_is_matched (its three returns): reorg_count + sampled_count + last_n_count == headers.len(), and '
        'last_n_count >= 1 (an empty last-N section is rejected, fix F24)')
add(EX, r'^Index\(headers, reorg_count\)$', POST + '; evaluated under sampled_count != 0', ['call:check_if_response_is_matched'])
add(EX, r'^overflow\(\+\)\(reorg_count, sampled_count\)$', 'counts of in-memory headers', ['call:check_if_response_is_matched'])
add(EX, r'^overflow\(\+\)\(Add\(reorg_count, sampled_count\)\.0, last_n_count\)$', 'counts of in-memory headers', ['call:check_if_response_is_matched'])
add(EX, r'^overflow\(-\)\(Add\(Add\(_, _\)\.0, last_n_count\)\.0, 1_usize\)$', 'under sampled_count != 0 the sum is >= 1', ['call:check_if_response_is_matched'])
add(EX, r'^Index\(headers, Sub\(Add\(_, _\)\.0, 1_usize\)\.0\)$', POST + ': the index is headers.len() - 1', ['call:check_if_response_is_matched'])
add(EX, r'^Index\(verifiable_headers, RangeInclusive::new\(\.\.\)\)$', POST + ': reorg_count != 0 and last_n_count != 0 are tested just before => reorg_count < len (F79 fix)', ['call:check_if_response_is_matched', 'cmp:Ne(last_n_count, 0_usize)'])
add(EX, r'^SliceOp\(Chain::collect\(\.\.\), 2_usize\)$', 'windows(2): constant non-zero size (F80 fix)')
add(EX, r'^bounds\([01]_usize, pair\.len\(\)\)$', 'pair is an element of windows(2): length exactly 2')
add(EX, r'^Index\(verifiable_headers, _\)$', POST + ': the same vector before the conversion to header views; bounds reorg_count and reorg_count + sampled_count are <= its length (F43 fix)', ['call:check_if_response_is_matched'])
add(EX, r'^Index\(headers, _\)$', POST + ': every range bound (reorg_count, reorg_count + sampled_count, headers.len() - last_n_count) is <= headers.len()', ['call:check_if_response_is_matched'])
add(EX, r'^overflow\(-\)\(headers\.len\(\), last_n_count\)$', POST, ['call:check_if_response_is_matched'])
add(EX, r'^overflow\(-\)\(last_n_count, last_n_blocks\)$', 'in the Ordering::Greater arm of last_n_count.cmp(&last_n_blocks)', ['call:Ord>::cmp'])
add(EX, r'^VecOp\(new_last_headers, split_at\)$', 'split_at = last_n_count - last_n_blocks < last_n_count == new_last_headers.len()', ['call:Ord>::cmp'])
add(EX, r'^overflow\(-\)\(last_n_blocks, last_n_count\)$', 'in the Ordering::Less arm of last_n_count.cmp(&last_n_blocks)', ['call:Ord>::cmp'])
add(EX, r'^Index\(headers, RangeInclusive::new\(\.\.\)\)$', POST + ': reorg_count != 0 and last_n_count != 0 are tested just before => reorg_count < headers.len()', ['call:check_if_response_is_matched', 'cmp:Ne(last_n_count, 0_usize)'])
add(EX, r'^total_difficulty\(prev_last_header\)$', TD_INV)
add(EX, r'^total_difficulty\(last_header\)$', 'checked_total_difficulty(last_header) is tested at the top of execute', ['call:VerifiableHeaderPatch>::checked_total_difficulty'])

SE = 'EpochDifficultyTrend::split_epochs'
KN = ('k < n: the only caller (check_total_difficulty_limit) obtains k from calculate_tau_exponent(tau, n) which searches 0..n, and takes this path with n >= 2; '
      'hence n - k >= 1, (n - k + 1) / 2 + k <= n and every difference below is non-negative')
add(SE, r'^overflow\(-\)\(n, (k|increased|decreased)\)$', KN)
add(SE, r'^overflow\(\+\)\(Sub\(n, k\)\.0, 1_u64\)$', KN + '; n is an epoch-number difference already computed with checked_sub')
add(SE, r'^overflow\(\+\)\(Div\(Add\(_\.0, 1_u64\)\.0, 2_u64\), k\)$', KN)
add('EpochCountGroupByTrend::subtract1', r'^overflow\(-\)\(count, 1_u64\)$', 'called from remove_last_epoch on the group that contains the last epoch: counts produced by split_epochs sum to n >= 1 and the decremented group is non-zero')

CM = 'check_if_response_is_matched'
add(CM, r'^SliceOp\(headers, 2_usize\)$', 'windows(2): constant non-zero size')
add(CM + '::{closure#1}', r'^bounds\([01]_usize, hs\.len\(\)\)$', 'hs is an element of windows(2): length exactly 2')
add(CM + '::{closure#0}', r'^bounds\([01]_usize, hs\.len\(\)\)$', 'hs is an element of windows(2): length exactly 2')
add(CM + '::{closure#2}', r'^bounds\([01]_usize, hs\.len\(\)\)$', 'hs is an element of windows(2): length exactly 2')
add(CM, r'^bounds\(Sub\(reorg_count, 1_usize\)\.0, headers\.len\(\)\)$', 'reorg_count is the length of a prefix of headers (take_while().count()) and != 0 here', ['cmp:Ne(reorg_count, 0_usize)'])
add(CM, r'^overflow\(-\)\(start_number, 1_u64\)$', 'reorg_count != 0 => some header number < start_number => start_number >= 1', ['cmp:Ne(reorg_count, 0_usize)'])
add(CM, r'^overflow\(-\)\(total_count, reorg_count\)$', 'reorg_count counts a prefix of the total_count headers')
add(CM, r'^overflow\(-\)\(total_count, before_boundary_count\)$', 'before_boundary_count counts a prefix of the total_count headers')
add(CM, r'^total_difficulty\(', 'every header of the response passed checked_total_difficulty() at the top of the function', ['call:VerifiableHeaderPatch>::checked_total_difficulty'])
add(CM + '::{closure#4}', r'^total_difficulty\(', 'closure over the response headers, all of which passed checked_total_difficulty() at the top of the function')
add(CM + '::{closure#3}', r'^total_difficulty\(', 'closure over the response headers, all of which passed checked_total_difficulty() at the top of the function')
add(CM + '::{closure#5}', r'^total_difficulty\(', 'closure over the response headers, all of which passed checked_total_difficulty() at the top of the function')
add(CM, r'^bounds\(reorg_count, headers\.len\(\)\)$', 'last_n_count = total_count - reorg_count != 0 in this branch', ['cmp:Eq(last_n_count, 0_usize)'])
add(CM, r'^bounds\(Sub\(headers\.len\(\), 1_usize\)\.0, headers\.len\(\)\)$', 'headers is non-empty (checked on entry)', ['call:slice::is_empty'])
add(CM, r'^overflow\(\+\)\(reorg_count, sampled_count\)$', 'counts of in-memory headers')
add(CM, r'^overflow\(-\)\(Add\(reorg_count, sampled_count\)\.0, 1_usize\)$', 'sampled_count != 0 in this branch', ['cmp:Eq(sampled_count, 0_usize)'])
add(CM, r'^bounds\(Add\(reorg_count, sampled_count\)\.0, headers\.len\(\)\)$', 'sampled_count != 0 only arises from the first branch where last_n_count >= last_n_blocks > 0, so reorg + sampled < total', ['cmp:Eq(sampled_count, 0_usize)'])
add(CM, r'^bounds\(Sub\(Add\(_, _\)\.0, 1_usize\)\.0, headers\.len\(\)\)$', 'reorg + sampled - 1 < total (see above)', ['cmp:Eq(sampled_count, 0_usize)'])
add(CM, r'^Index\(headers, Range\{\.\.\}\)$', 'reorg_count <= reorg_count + sampled_count < headers.len()', ['cmp:Eq(sampled_count, 0_usize)'])
add(CM, r'^VecOp\(difficulties, 0_usize\)$', 'remove(0) inside `while let Some(..) = difficulties.first()` / after a non-empty test')
add(CM, r'^expect\(Option::cloned\(\.\.\)\)$', 'difficulties.first() after the loop condition established non-emptiness')
add('print_difficulties_distribution', r'^total_difficulty\(', 'trace-only helper over the response headers, called after they all passed checked_total_difficulty()')
add('print_difficulties_distribution::{closure#0}', r'^total_difficulty\(', 'trace-only helper over the response headers, called after they all passed checked_total_difficulty()')
add('print_difficulties_distribution::{closure#1}', r'^total_difficulty\(', 'trace-only helper over the response headers, called after they all passed checked_total_difficulty()')

add('verify_total_difficulty', r'^U256\.sub\(end_total_difficulty, start_total_difficulty\)$', 'dominated by `if start_total_difficulty > end_total_difficulty { return Err }`', ['call:<U256 as PartialOrd>::gt'])
add('verify_total_difficulty', r'^overflow\(\+\)\(EpochNumberWithFraction::index\(\.\.\), 1_u64\)$', 'EpochNumberWithFraction::index() is a 16-bit field of the packed epoch (<= 65535)')
add('verify_mmr_proof', r'^SliceOp\(numbers, 2_usize\)$', 'windows(2): constant non-zero size (F30 fix: distinct-heights test)')
add('verify_mmr_proof', r'^bounds\(0_usize, pair\.len\(\)\)$', 'pair is an element of windows(2): length exactly 2')
add('verify_mmr_proof::{closure#2}', r'^bounds\([01]_usize, pair\.len\(\)\)$', 'pair is an element of windows(2): length exactly 2')
SM = 'strict_merkle_proof_root'
add(SM, r'^SliceOp\(pre, 2_usize\)$', 'windows(2): constant non-zero size (F31 fix: duplicate-index test)')
add(SM + '::{closure#2}', r'^bounds\([01]_usize, pair\.len\(\)\)$', 'pair is an element of windows(2): length exactly 2')
add(SM, r'^overflow\(\+\)\(index, 1_u64\)$', 'index is a u64 widened from a u32 leaf index or (index - 1) >> 1 of such a value: <= u32::MAX, so index + 1 cannot wrap u64', ['call:<u64 as From>::from'])
add(SM, r'^overflow\(\?\)\(1_i32\)$', 'shift by the constant 1 < 64')
add('check_continuous_headers', r'^SliceOp\(headers, 2_usize\)$', 'windows(2): constant non-zero size')
add('check_continuous_headers', r'^bounds\([01]_usize, pair\.len\(\)\)$', 'pair is an element of windows(2): length exactly 2')
add('verify_mmr_proof', r'^mmr_index\(index\)$', 'every header number was checked <= end_number <= MMR_LEAF_INDEX_MAX before the mapping closure runs', ['cmp:Gt(end_number, MMR_LEAF_INDEX_MAX)'])
add('verify_mmr_proof', r'^mmr_index\(end_number\)$', 'end_number <= MMR_LEAF_INDEX_MAX was checked (fix 5d0becd)', ['cmp:Gt(end_number, MMR_LEAF_INDEX_MAX)'])

# ---- light client protocol ----------------------------------------------------------------------------------------------
add('LightClientProtocol::get_last_state_proof', r'^expect\(Peers::get_state\(\.\.\)\)$', 'every caller established the peer exists (get_peer_state / update_last_state succeeded / peers iterated from the map) in the same handler, and peers are removed only by the same protocol handler')
add('LightClientProtocol::update_prove_state_to_child', r'^total_difficulty\(', TD_INV)
add('LightClientProtocol::commit_prove_state', r'^total_difficulty\(', TD_INV)
add('LightClientProtocol::commit_prove_state', r'^overflow\(-\)\(Add\(to_number, 1_u64\)\.0, start_number\)$', 'in the else-arm of `start_number > to_number`: start_number <= to_number, so to_number + 1 - start_number >= 1 (F53 fix)', ['cmp:Gt(start_number, to_number)'])
add('LightClientProtocol::commit_prove_state', r'^overflow\(\+\)\(to_number, 1_u64\)$', 'to_number is the number of a reorg header whose hash equals a stored last-N header: a proven header number (<= MMR_LEAF_INDEX_MAX, checked by verify_mmr_proof) (F42 fix)')
add('LightClientProtocol::commit_prove_state', r'^overflow\(\+\)\(Option::unwrap_or\(\.\.\), 1_u64\)$', 'start_number of a stored MATCHED_BLOCKS record or a block number found in the stored last-N headers (store values)')
add('LightClientProtocol::build_prove_request_content', r'^total_difficulty\(', TD_INV)
add('LightClientProtocol::build_prove_request_content::{closure#0}', r'^total_difficulty\(', TD_INV)
add('LightClientProtocol::build_prove_request_content_from_genesis', r'^total_difficulty\(', TD_INV)
add('LastState::total_difficulty', r'^total_difficulty\(self\)$', TD_INV)
add('ProveState::new_child', r'^VecOp\(last_headers, 0_usize\)$', 'remove(0) under last_headers.len() >= last_n_blocks with last_n_blocks the non-zero constant LAST_N_BLOCKS', ['cmp:Ge(last_headers.len(), last_n_blocks)'])
add('ProveState::is_parent_of', r'^total_difficulty\(parent\)$', TD_INV)
add('CheckPoints::number_of_last_check_point', r'^overflow\(-\)\(count, 1_u64\)$', 'inner is never empty: created with one element, grown only by add_check_points, shrunk only by remove_first_n_check_points(index) with index < len (C07.r5)')
CPI = 'check_point_interval is the non-zero constant CHECK_POINT_INTERVAL passed to Peers::new'
add('CheckPoints::add_check_points', r'^rem0\(start_number\)$', CPI)
add('CheckPoints::add_check_points', r'^div0\(Sub\(start_number, first_number\)\.0\)$', CPI)
add('CheckPoints::add_check_points', r'^Index\(self\.inner, _\)$', '`inner[offset..]` with offset = (start - first) / interval under first <= start < next = first + interval * (len - 1): offset <= len - 2 (F70 fix)', ['cmp:Le(first_number, start_number)', 'cmp:Lt(start_number, next_number)'])
add('CheckPoints::add_check_points', r'^overflow\(-\)\(self\.inner\.len\(\), 1_usize\)$', 'inner is never empty (C07.r5)')
add('CheckPoints::add_check_points', r'^Index\(self\.inner, Sub\(self\.inner\.len\(\), 1_usize\)\.0\)$', 'len - 1 is a valid index of the non-empty inner')
add('CheckPoints::add_check_points', r'^Index\(check_points, _\)$', '`check_points[1..]` after check_points.len() < 2 returned an error', ['cmp:Lt(check_points.len(), 2_usize)'])
add('CheckPoints::add_check_points', r'^Index\(check_points, RangeInclusive::new\(\.\.\)\)$', '`check_points[1..=len-2]` under check_points.len() > 2', ['cmp:Gt(check_points.len(), 2_usize)'])

LU = 'LatestBlockFilterHashes::update_latest_block_filter_hashes'
add(LU, r'^overflow\(-\)\(block_filter_hashes\.len\(\), diff\)$', 'diff = end_number - last_proved_number with end_number = start_number + len - 1 and start_number <= last_proved_number (checked) => diff <= len - 1',
    ['cmp:Gt(start_number, last_proved_number)'])
add(LU, r'^Index\(block_filter_hashes, _\)$', 'range bounds new_length <= len and start_index_for_new <= len (index + 1 with index <= len - 1, or 0)')
add(LU, r'^bounds\(index, block_filter_hashes\.len\(\)\)$', 'start_number <= finalized_check_point_number < end_number (both checked, the latter also after clamping because finalized < last_proved) => index <= len - 1',
    ['cmp:Ge(finalized_check_point_number, end_number)', 'cmp:Ge(finalized_check_point_number, last_proved_number)'])
add(LU, r'^overflow\(\+\)\(index, 1_usize\)$', 'index into an in-memory slice')
add(LU, r'^overflow\(-\)\(diff, 2_usize\)$', 'else-branch: start_number > finalized_check_point_number and != finalized + 1 => diff >= 2', ['cmp:Le(start_number, finalized_check_point_number)'])
add(LU, r'^Index\(self\.inner, index\)$', 'start_number <= last_filter_number + 1 = check_point_number + inner.len() + 1 (checked) => index = diff - 2 <= inner.len() - 1',
    ['cmp:Gt(start_number, Add(last_filter_number, 1_u64).0)'])
add(LU, r'^overflow\(-\)\(start_number, 1_u64\)$', 'start_number > finalized_check_point_number >= 0 (format argument)', ['cmp:Le(start_number, finalized_check_point_number)'])
add(LU, r'^Index\(self\.inner, _\)$', 'start_index_for_old is 0 or index + 1 <= inner.len()')
add(LU, r'^overflow\(\+\)\(start_index_for_old, index\)$', 'indices into in-memory vectors')
add(LU, r'^overflow\(\+\)\(start_number, Add\(start_index_for_old, index\)\.0\)$', 'start_number <= last_proved_number (checked) and the offset is a vector index; format argument', ['cmp:Gt(start_number, last_proved_number)'])
add(LU, r'^overflow\(\+\)\(start_index_for_new, Vec::index\(\.\.\)\.len\(\)\)$', 'indices / lengths of in-memory vectors')
add(LU, r'^overflow\(\+\)\(end_number, 1_u64\)$', 'end_number < last_proved_number in this branch', ['cmp:Lt(end_number, last_proved_number)'])

add('Peers::calc_check_point_number', r'^overflow\(\*\)\(self\.check_point_interval, u64::from\(\.\.\)\)$', 'interval (2000) times a u32 index fits in u64')
add('Peers::calc_cached_check_point_index_when_sync_at', r'^div0\(', CPI)
add('Peers::update_min_filtered_block_number', r'^overflow\(\+\)\(min_filtered_block_number, 1_u64\)$', 'the only callers pass the stored filter progress or start_number - 1 + count with start_number pinned to min_filtered + 1 (C06.r1)')
add('Peers::get_peers_which_require_more_latest_block_filter_hashes::{closure#0}', r'^overflow\(\*\)\(.*, 2_u64\)$', 'check_point_interval * 2 (constants)')
add('Peers::get_peers_which_require_more_latest_block_filter_hashes::{closure#0}', r'^overflow\(\+\)\(last_number, 1_u64\)$', 'last_number < proved_number in this branch')
add('Peers::get_peers_which_require_more_latest_block_filter_hashes::{closure#0}::{closure#0}', r'^overflow\(', 'check-point arithmetic on local values bounded by the proved number')
add('Peers::get_latest_block_filter_hashes', r'^overflow\(-\)\(required_peers_count, 1_usize\)$', 'required_peers_count() panics on 0 by configuration check, so it is >= 1')
add('Peers::get_latest_block_filter_hashes', r'^Index\(hashes_sizes, Sub\(required_peers_count, 1_usize\)\.0\)$', 'peers_with_data.len() >= required_peers_count was checked and hashes_sizes has one entry per peer',
    ['cmp:Lt(peers_with_data.len(), required_peers_count)'])
add('Peers::get_latest_block_filter_hashes', r'^expect\(hash_opt\)$', 'count_max is the maximum of the map values, so an entry with that count exists')
add('Peers::could_request_more_block_filters', r'^overflow\(\+\)\(min_filtered_block_number, 1_u64\)$', 'callers pass the stored filter progress / the new filtered number pinned by C06.r1')
add('if_verifiable_headers_are_same', r'^expect\(VerifiableHeader::extension\(\.\.\)\)$', 'evaluated on the right of `lhs.extension().is_none() ||` after `is_none() == is_none()` held: both are Some')
add('if_verifiable_headers_are_same', r'^total_difficulty\((lhs|rhs)\)$', 'one side is a stored LastState header (' + TD_INV + '); the other is the response last header which passed checked_total_difficulty() at the top of execute, or a header passed to check_verifiable_header first')

# ---- sampling (request building; operands are the client's own prove state / stored tip and the announced last header) ---------------
GUARD838 = 'only reached through build_prove_request_content(_from_genesis) after `start_total_difficulty > last_total_difficulty || start_number >= last_number` returned None (C15.r1)'
add('multiply', r'^U256\.(mul|div)\(', 'U512 arithmetic: a 256-bit value times a 32-bit numerator cannot overflow 512 bits; the divisor is the non-zero constant RATIO_SCALE_FACTOR')
add('FlyClientPDF::random_sample', r'^U256\.add\(self\.start_difficulty, multiply\(\.\.\)\)$', 'start + range * x with x < 1 is below start + range = last total difficulty')
add('FlyClientPDF::random_sample', r'^U256\.sub\(self\.difficulty_boundary, 1_u32\)$', 'difficulty_boundary = start + multiply(..) and multiply never returns 0')
add('sample_blocks', r'^overflow\(-\)\(last_number, start_number\)$', GUARD838)
add('sample_blocks', r'^U256\.sub\(last_difficulty, start_difficulty\)$', GUARD838)
add('sample_blocks', r'^U256\.add\(start_difficulty, difficulty_boundary_added\)$', 'start + range * (1 - delta) <= last total difficulty')

# ---- secondary entry points (notify / connected): state left behind by messages is consumed here ---------------------------------------
for h in ('FilterProtocol', 'LightClientProtocol', 'RelayProtocol'):
    add('<%s as CKBProtocolHandler>::notify' % h, r'^panic:panic$', 'unreachable!() on an unknown timer token: tokens are registered by the protocol itself in init()')
add('CheckPoints::remove_first_n_check_points', r'^VecOp\(self\.inner, _\)$', 'drain(..n) with n = index, which finalize_check_points checked to be < check_points.len() of the same (cloned) vector')
FCP = 'LightClientProtocol::finalize_check_points'
add('LightClientProtocol::refresh_all_peers', r'^overflow\(-\)\(now, Duration::as_millis\(\.\.\)\)$', 'unix time in ms minus the constant REFRESH_PEERS_DURATION')
add(FCP, r'^overflow\(-\)\(u32::add\(\.\.\), 1_u32\)$', 'trace-only: start index plus a non-zero length (a peer always has at least one check point, C07.r5)')
add(FCP, r'^VecOp\(check_points, _\)$', 'drain(..index) after `index >= check_points.len()` => continue', ['cmp:Ge(index, check_points.len())'])
add(FCP, r'^Index\(check_points, 0_usize\)$', 'trace argument after drain(..index) with index < len: at least one element remains', ['cmp:Ge(index, check_points.len())'])
add(FCP, r'^overflow\(-\)\(required_peers_count, 1_usize\)$', 'required_peers_count() >= 1 (it panics on 0 by configuration check)')
add(FCP, r'^Index\(check_points_sizes, Sub\(required_peers_count, 1_usize\)\.0\)$', 'peers_with_data.len() >= required_peers_count was re-checked after cleaning', ['cmp:Lt(peers_with_data.len(), required_peers_count)'])
add(FCP, r'^overflow\(-\)\(Add\(last_cpindex, length_max\)\.0, 1_u32\)$', 'trace-only; length_max >= 1 because every peer vector is non-empty')
add(FCP, r'^expect\(cp_opt\)$', 'count_max is the maximum count in the map, so an entry with that count exists')
add(FCP, r'^expect\(IntoValues::next\(\.\.\)\)$', 'peers_with_data.len() >= required_peers_count >= 1 after retain (the retained peers all agree on index)')
add(FCP, r'^Index\(check_points, RangeInclusive::new\(\.\.\)\)$', 'the retained peers all have check_points.get(index) == Some(cp), so index < len')
add('LightClientProtocol::fetch_headers_txs', r'^SliceOp\(Peers::get_(headers|txs)_to_fetch\(\.\.\), _\)$', 'chunk sizes are the non-zero constants GET_BLOCKS_PROOF_LIMIT / GET_TRANSACTIONS_PROOF_LIMIT')
add('<RelayProtocol as CKBProtocolHandler>::connected', r'^unwrap\(Option::and_then\(\.\.\)\)$',
    'ASSUMPTION (connection event, not a message): the session address of an established secio session carries the remote peer id, so extract_peer_id succeeds; notify() handles None gracefully')
add('<RelayProtocol as CKBProtocolHandler>::notify', r'^expect\(Sync::p2p_control\(\.\.\)\)$', 'the ckb-network protocol context always provides a p2p control handle (local API, not peer data)')
add(SE, r'^overflow\(\+\)\(n, 1_u64\)$', 'n is a checked difference of two EpochNumberWithFraction::number() values, which are 24-bit fields of the packed epoch (n < 2^24)')
