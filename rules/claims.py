"""What MANIFEST.json claims per property (consumed by tools/gen_manifest.py)."""

CLAIMS = {
    'C01': {
        'technique': 'static analysis: path-sensitive guard-flow typestate + who-may-call over compiler MIR',
        'text': 'Decides, for all CFG paths of the real binary\'s MIR, that the only route to a trusted-state write from a '
                'SendLastStateProof is behind every listed check having run and accepted, that each check function can only '
                'succeed after its primitive PoW / chain-root / parent / MMR checks accepted, and that no other function may '
                'call the trusted-state writers. A structural necessary condition of C01, not the behaviour as a whole. Plus C01.ref: the decision structure of check_if_response_is_matched and the header checkers conforms to a reviewed reference (no rejection removed or narrowed, no weaker way to succeed).',
        'note': 'Not decided: correctness of the comparisons inside check_if_response_is_matched, sampling match, MMR/PoW libraries.',
    },
    'C02': {
        'technique': 'static analysis: guard-flow typestate + who-may-call + key-family writer discovery over compiler MIR',
        'text': 'Decides for all CFG paths that fetched headers/transactions are persisted, matched blocks marked proved and block '
                'bodies stored/indexed only behind: an outstanding request, equality of last hash and of requested hashes, PoW, MMR '
                'proof, (v1) extra hash, (txs) the Merkle root compared with transactions_root, the proved flag, and the body '
                'commitment (transactions root and extra hash recomputed from the downloaded body); that the CBMT root comes from the strict local implementation (F31) and that a matched-blocks record kept across a fork loses its proved flags (F42). Structural necessary conditions.',
        'note': 'Not decided: MMR / Merkle arithmetic (trusted libraries); which peer serves which request.',
    },
    'C11': {
        'technique': 'static analysis: enum-dispatch variant tables extracted from MIR, compared with the documented diagram and with sibling predicates; dominance and field-write ownership',
        'text': 'Exhaustive over the 7-variant x 4-event table: the transition relation extracted from the code equals the plantuml '
                'diagram plus a frozen list of reasoned extras; no transition drops a prove state; selector predicates agree with '
                'the Ok-domains of the transitions they guard; Peer.state has four writers; stale/unsolicited proofs cannot reach the '
                'commit; timeout/disconnect paths mark in-flight fetches first; only 4xx statuses ban. Replaces the event-sequence '
                'quantifier by per-transition invariants; does not decide timer arithmetic or multi-peer schedules.',
        'note': 'Not decided: now > when_sent + MESSAGE_TIMEOUT arithmetic; interleavings of several peers.',
    },
    'C12': {
        'technique': 'static analysis: guard-flow typestate with operator/operand identity, def-use provenance, writer/reader layout agreement over compiler MIR',
        'text': 'Decides for all paths that every non-genesis write of the stored tip is behind a strict U256 comparison '
                'candidate.total_difficulty() > stored (operator, operand order and provenance checked), that the stored triple '
                'derives from the same candidate prove state, that the byte layout written equals the layout read back after a restart, '
                'and that the child fast path requires header verification, parenthood, strictly greater difficulty and a chain-root '
                'comparison with the proven parent (same epoch and compact target, F36); that a proof is committed only after the total difficulties of its continuous headers, ending with the last header, were chained (F43). Necessary conditions; ancestry of the last-N window is a value clause.',
        'note': 'Not decided: that last-N headers are ancestors; real restart behaviour (only layout agreement is decided).',
    },
    'C18': {
        'technique': 'static analysis: guard-flow typestate, tail-call/return provenance, who-may-call and def-use over compiler MIR',
        'text': 'Decides for all paths that the pending pool is fed only by send_transaction after verify_tx returned Ok; that verify_tx '
                'and its parts can succeed only after each verifier accepted, every resolved cell was Live and no input repeated; that '
                'the pool insert is always followed by the size test with eviction; that a hash is announced to a peer only on the '
                'first insert into its announced set and all RelayTransactionHashes come from that function; that pending status comes '
                'from a pool hit after a store miss; that the hardfork compatibility verifier is part of the chain (F38) and that the headers of the median-time walk are resolvable or an error (F39). Script/capacity/since semantics are trusted (ckb-verification).',
        'note': 'Not decided: verifier semantics; that re-submission resets the announced-peer set; cycles arithmetic.',
    },
    'C17': {
        'technique': 'static analysis: lock-guard live ranges, protected-function fixpoint over the call graph, acquired-while-holding graph, snapshot-only read check over compiler MIR',
        'text': 'Decides for every call-graph path from any entry that each sync-progress mutator of the store runs inside a live '
                'write guard of the matched-blocks RwLock; that no operation splits its mutations over two critical sections; that '
                'no RwLock/DashMap lock is re-acquired while held and the lock-order graph is acyclic; that the three index queries '
                'read only through one RocksDB snapshot; and that the progress a mutation is decided on (min filtered number, pending matched records, scripts; for functions that only load the in-memory matched-blocks map: the stored pending record) is read under the same lock (no stale check-then-act). With std RwLock semantics this yields mutual exclusion of the listed '
                'operations (serialisability), deadlock freedom of the lock graph and point-in-time reads.',
        'note': 'Not decided: races outside the listed mutators (add_fetched_tx vs filter_block is handled under C03); fairness.',
    },
    'C06': {
        'technique': 'static analysis: guard-flow typestate with statement-level comparison guards, loop guards and def-use provenance over compiler MIR',
        'text': 'Decides for all paths of BlockFiltersProcess::execute that recording matched blocks, advancing the filtered height and '
                'matching filter data happen only behind: a prove state, start == min_filtered+1, equal non-zero vector lengths and '
                'a filter-hash chain in which no element differed; that limit/take/count/new height all derive from min(filters, known '
                'hashes); that expected hashes and the parent hash originate only from finalized/cached/quorum hashes; and reports the '
                'missing height binding of message block hashes (known finding F16).',
        'note': 'Not decided: quorum semantics of the latest hashes (C07); GCS matching. Known finding F16 (hash/height binding) is listed in known_findings.json.',
    },
    'C07': {
        'technique': 'static analysis: who-may-call, statement-guard flow, option-arm reachability, def-use of written indices, arithmetic-shape extraction over compiler MIR',
        'text': 'Decides for all paths that finalized check points and the final index are written only from finalize_check_points (and '
                'genesis init), only after both enough-proven-peers tests and only through a candidate assigned on the accepting edge of '
                'count_max >= required; that writes start at last_final+1 with slice element 1 and the index range starts at 1 '
                '(append-only, never rewritten, never decreasing); that the quorum is (max_outbound+1)/2; that per-peer vectors grow only '
                'behind alignment/continuity/first-hash tests. The counting argument itself is a value clause. Plus C07.ref: check-point bookkeeping (add / remove / index arithmetic, quorum formula) conforms to a reviewed reference.',
        'note': 'Not decided: that fewer-than-quorum deviating peers cannot block agreement; check point arithmetic.',
    },
    'C09': {
        'technique': 'static analysis: per-arm storage-effect table vs README, def-use of the rewind value, post-dominance, lock region, statement-guard flow over compiler MIR',
        'text': 'Decides that each set_scripts command arm has exactly the documented storage effects (all = delete-all-under-prefix + put, '
                'partial = put, delete = delete; empty partial/delete = none); that the rewind value is assigned from the given block '
                'numbers through min in all/partial (partial: also min with current progress) and never in delete; that pending matched '
                'blocks are cleared in store and memory after every effective command, inside one matched-blocks critical section; that '
                'update_block_number only raises; that every other function which moves the filter progress reads and writes it under the lock '
                'set_scripts holds (r7: a batch decided before a rewind cannot overwrite it). "Far enough for every sequence" is a value clause and not decided.',
        'note': 'Not decided: sufficiency of the rewind for every command sequence at every sync position.',
    },
    'C15': {
        'technique': 'static analysis: call- and statement-guard flow with operand provenance, return-type and sort-dominance checks over compiler MIR',
        'text': 'Decides for all paths of both request builders that a request is returned only when start difficulty > last difficulty and '
                'start number >= last number were both false; that sampling is reachable only when more than last-N blocks are missing '
                '(otherwise all blocks, no samples); that samples are a HashSet collected, sorted and returned; that samples >= boundary are '
                'clamped to boundary - 1. Sample counts and ranges are arithmetic (value clauses). Plus C15.ref: sampling and request-construction arithmetic conforms to a reviewed reference.',
        'note': 'Not decided: FlyClient sample-count bound, samples strictly inside (start, boundary), f64 arithmetic.',
    },
    'C03': {
        'technique': 'static analysis: control-dependence of a sentinel write on a record lookup, sort/iteration order, writer/reader layout agreement, who-may-call over compiler MIR',
        'text': 'Decides structural necessary conditions of index == chain: a TxHash record is written with the placeholder tx_index only '
                'after consulting the existing record (the stored index addresses cell keys on spend/rollback); matched blocks are indexed in '
                'block-number order and script numbers rise only after the whole batch; every key/value reader slices at the offsets the '
                'writer produces; only the synchronizer (and set_scripts for genesis) indexes blocks; a block is indexed only for the scripts that have not passed it (F41); filter_block consults a stored transaction record only as the fallback of the lookup in the block being indexed (F35); no reviewed durable write of a storage function is made conditional on a test the reviewed function never made. The equality of index and chain over '
                'all histories is a value clause and is NOT decided.',
        'note': 'Not decided: index == chain over generated histories, script sets and RPC interleavings (the main clause).',
    },
    'C13': {
        'technique': 'static analysis: writer/reader byte-layout agreement, sibling agreement of filter comparison signatures, snapshot-only reads, statement-guard flow over compiler MIR',
        'text': 'Decides that the three queries slice keys and stored transactions at the offsets written by append_key / Value::Transaction; '
                'that get_cells_capacity applies exactly the filter comparisons of get_cells and the grouped/ungrouped transaction branches the '
                'same half-open block range; that all reads go through one snapshot; that limit == 0 is rejected and the cursor entry is skipped '
                'iff a cursor was given; that records selected by a key prefix are used only when the key is long enough for the prefix and the fixed tail (F40: no delimiter after the script args). Exactly-once pagination, order reversal, grouping and the capacity sum are value clauses, not decided.',
        'note': 'Not decided: pagination exactness, desc = reverse(asc), grouped = group(ungrouped), capacity = sum over cells.',
    },
    'C08': {
        'technique': 'static analysis: write-primitive discovery, reachability / dominance ordering of durable writes over compiler MIR',
        'text': 'Decides a write-order discipline, each rule tied to the crash point that loses data or bricks the store when violated: durable '
                'write primitives live only in storage.rs; the matched-blocks record is removed only after its blocks were indexed and '
                'script numbers raised; the initialised marker is the last durable write of first-run init; a filter batch is recorded '
                'before progress advances; the set_scripts rewind is not a separate write after the script batch; indexing/rollback of a '
                'block is one atomic batch. Convergence after a crash at every boundary of every history is a value clause and not decided.',
        'note': 'Not decided: equality of post-crash RPC answers over histories x crash points; update_last_state two-put atomicity (advisory).',
    },
    'C04': {
        'technique': 'static analysis: inverse pairing of key families between indexer and rollback, guard flow on the fork search, lock regions, abort-site provenance over compiler MIR',
        'text': 'Decides that everything filter_block puts is deleted by rollback_to_block (or is content-addressed), everything it deletes is '
                're-put, and script numbers / filter progress are rewound in the same batch; that a fork sharing no remembered header reaches '
                'no storage mutator or peer-state update and returns Ok(false); that on the reorg branch the tip write follows the rollback '
                'inside the matched-blocks lock; that the long-fork abort is reachable only with the flag set after Ok(false) on a '
                'from-genesis request. Post-fork answer correctness and absence of stalls are value clauses, not decided.',
        'note': 'Not decided: correctness/completeness of answers for the new chain, stalls. Known findings F15b/F15c (TxHash and BlockNumber records survive a rollback) are listed in known_findings.json.',
    },
    'C16': {
        'technique': 'static analysis: who-may-call, guard flow (incl. must-pass-through under a rejecting outcome), flag switches, dominance over compiler MIR',
        'text': 'Decides that fetches are marked missing / removed / persisted only by the two proof processes behind request, hash-set and MMR '
                'checks; that proof requests go only to peers from get_best_proved_peers; that the RPC reports fetched only from a store hit, '
                'not_found only on the missing flag after re-adding, fetching only with first_sent > 0; that in-flight fetches are marked timed '
                'out before a peer is dropped and before its request is cleared after a rejected response; and reports the height-based '
                '(transaction, block) join (known finding F15a).',
        'note': 'Not decided: status sequences over time, retry scheduling. Known finding F15a is listed in known_findings.json.',
    },
    'C10': {
        'technique': 'static analysis: abort-site census over the handler call closure in compiler MIR, discharged by guard-flow idioms, interprocedural wire-taint, and a reviewed table with required dominating facts',
        'text': 'Decides that every abort-capable site (overflow/bounds/division asserts, explicit panics, unwrap/expect, panicking library '
                'calls from a repository-specific table) reachable from the four received() handlers — and from notify/connected — is '
                'discharged by a proven guard idiom, by provenance (no peer-derived operand), by being a decoder of self-written store '
                'bytes, or by a reviewed entry whose required guards still dominate it; plus decode discipline, no unchecked molecule '
                'readers, total-difficulty admission of every LastState, and the non-empty last-N shape. New unguarded arithmetic / '
                'indexing / unwrap on peer data, or removal of a guard an entry relies on, is reported.',
        'note': 'Not decided: panics inside library code outside the table; resource exhaustion; semantic adequacy of a recognised comparison. '
                'One reviewed entry (RelayProtocol::connected peer-id unwrap) rests on a stated assumption about tentacle session addresses.',
    },
    'C14': {
        'technique': 'static analysis: (a) the C10 abort-site engine on the closed call set of verify_tau / verify_total_difficulty with every parameter treated as peer-supplied; (b) exit census of both functions with helpers inlined at MIR level, compared with a reviewed reference',
        'text': 'Decides (a) the last sentence of C14 ("they never abort, whatever numbers a peer supplies"): no undischarged abort-capable '
                'site and no explicit panic remains in the difficulty checks and their callees; (b) conformance of the envelope arithmetic to a '
                'reviewed reference: every reviewed rejection of verify_tau / verify_total_difficulty is still present with the same trigger, '
                'success carries at least the reviewed conditions, and the value expressions (which epoch length multiplies which block '
                'difficulty, the partial-epoch sums, the tau exponent) are the reviewed ones — insensitive to helper extraction, renaming and '
                'reordering. That the reviewed arithmetic IS the right envelope is a value clause and is not decided.',
        'note': 'Not decided: completeness/soundness of the tau envelope itself (value clause); (b) is relative to the reviewed reference in rules/census_table.json.',
    },
}

_PENDING = 'check not built yet in this round (planned in DESIGN.md §5); not claimed until its rules run on the tree'
NOT_APPLICABLE = {
    'C05': 'completeness of every check plus liveness over chain shapes, peer sets and random samples; no structural clause '
           'is both necessary for it and not already decided under C01/C11 — static analysis gives no verdict (DESIGN.md §6)',
}
for _i in range(1, 19):
    _p = 'C%02d' % _i
    if _p not in CLAIMS and _p not in NOT_APPLICABLE:
        NOT_APPLICABLE[_p] = _PENDING
