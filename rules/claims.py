"""What MANIFEST.json claims per property (consumed by tools/gen_manifest.py)."""

CLAIMS = {
    'C01': {
        'technique': 'static analysis: path-sensitive guard-flow typestate + who-may-call over compiler MIR',
        'text': 'Decides, for all CFG paths of the real binary\'s MIR, that the only route to a trusted-state write from a '
                'SendLastStateProof is behind every listed check having run and accepted, that each check function can only '
                'succeed after its primitive PoW / chain-root / parent / MMR checks accepted, and that no other function may '
                'call the trusted-state writers. A structural necessary condition of C01, not the behaviour as a whole.',
        'note': 'Not decided: correctness of the comparisons inside check_if_response_is_matched, sampling match, MMR/PoW libraries.',
    },
}

_PENDING = 'check not built yet in this round (planned in DESIGN.md §5); not claimed until its rules run on the tree'
NOT_APPLICABLE = {
    'C05': 'completeness of every check plus liveness over chain shapes, peer sets and random samples; no structural clause '
           'is both necessary for it and not already decided under C01/C11 — static analysis gives no verdict (DESIGN.md §6)',
}
for _i in range(1, 19):
    _p = 'C%02d' % _i
    if _p not in CLAIMS and _p not in NOT_APPLICABLE:
        NOT_APPLICABLE[_p] = _PENDING
