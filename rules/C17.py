"""C17 — concurrent RPC calls and protocol handlers behave like some serial order (DESIGN §5 C17)."""
import re
from engine.rules import Inconclusive
from engine.locks import Locks, guard_type
from engine import mir

EXPLANATION = (
    'Lock discipline decided over MIR guard live ranges (locks identified by the type they protect): (L1) every call of a '
    'sync-progress mutator of the store lies, along every call-graph path from any entry, inside the live range of a write '
    'guard of the matched-blocks RwLock (the global sync-progress lock); (L2) no operation splits its progress mutations over '
    'two critical sections; (L3) the acquired-while-holding graph over all RwLocks and DashMaps is acyclic, with no re-entrant '
    'acquisition of a held lock and no DashMap guard live across a call that locks the same map; (L4) the three index queries '
    'read only through one RocksDB snapshot; (L5) in every function that mutates sync progress, the progress it reads to decide '
    '(min filtered number, pending matched ranges, scripts) is read under the same lock (no stale check-then-act).')
NOT_DECIDED = ('Interactions outside the listed mutators (e.g. add_fetched_tx vs filter_block — see C03); fairness; that the '
               'critical sections compute the right thing.  Given std RwLock semantics L1+L2 imply mutual exclusion of the '
               'whole operations, L3 deadlock freedom of the lock graph, L4 single-point-in-time reads.')

SINKS = ['Storage::update_filter_scripts', 'Storage::add_matched_blocks', 'Storage::remove_matched_blocks',
         'Storage::clear_matched_blocks', 'Storage::update_min_filtered_block_number', 'Storage::update_block_number',
         'Storage::filter_block', 'Storage::rollback_to_block']
# progress the mutators' decisions are based on (Storage::is_filter_scripts_empty is deliberately absent: it only short-cuts a
# handler when nothing is registered; reading it early can at most ignore a message)
PROGRESS_READERS = ['Storage::get_min_filtered_block_number', 'Storage::get_earliest_matched_blocks', 'Storage::get_latest_matched_blocks',
                    'Storage::get_matched_blocks', 'Storage::get_filter_scripts', 'Storage::get_scripts_hash']
EXEMPT = {'Storage::init_genesis_block': 'runs once before any network or RPC thread is started'}
QUERIES = ['<BlockFilterRpcImpl as BlockFilterRpc>::get_cells', '<BlockFilterRpcImpl as BlockFilterRpc>::get_transactions',
           '<BlockFilterRpcImpl as BlockFilterRpc>::get_cells_capacity']


def run(ctx):
    P = ctx.prog
    ctx.explanation, ctx.not_decided = EXPLANATION, NOT_DECIDED
    L = Locks(P)

    # ---- L1 ------------------------------------------------------------------------------
    prot, witness = L.protected('L_mb', 'write', exempt_callers=set(EXEMPT))
    nsites = 0
    for b in P.bodies:
        if b.promoted is not None:
            continue
        top = P.parent_fn(b).name
        for bid, k, t in P.call_keys(b):
            if k not in SINKS:
                continue
            nsites += 1
            ctx.fn(b)
            if top in EXEMPT:
                ctx.ob('C17.L1', top, 'call of %s (exempt: %s)' % (k, EXEMPT[top]), True, at=t.span)
                continue
            held = bool(L.held_at(b, bid, 'L_mb', 'write'))
            ok = held or L._last_body_protected(b, bid)
            ctx.ob('C17.L1', b.name, 'call of %s runs under the matched-blocks write lock' % k, ok, at=t.span,
                   directly_held=held, via_protected_caller=(not held and ok), unprotected_path=None if ok else witness.get(top))
    ctx.floor('C17.L1', 'call sites of sync-progress mutators', nsites, 10)   # 15 on the reviewed tree; merging branches may legitimately lower it
    regs = [r for b in P.bodies if b.promoted is None for r in L.regions(b) if r.lock == 'L_mb' and r.mode == 'write']
    ctx.floor('C17.L1', 'matched-blocks write regions', len(regs), 6)
    # the exemption: init_genesis_block is called once, before the network service / RPC server start
    ctx.only_callers('C17.L1', 'Storage::init_genesis_block', {'RunConfig::execute'}, 1)
    RC = ctx.body('RunConfig::execute')
    cfg = P.cfg(RC)
    ig = P.call_sites(RC, 'Storage::init_genesis_block')
    starts = P.call_sites(RC, lambda k, t: k.endswith('NetworkService::start') or k == 'Service::start')
    ctx.floor('C17.L1', 'network/RPC start calls in RunConfig::execute', len(starts), 2)
    for sb, st in starts:
        ctx.ob('C17.L1', RC.name, 'init_genesis_block dominates %s' % mir.callee_key(st.callee), cfg.dominates(ig[0][0], sb), at=st.span)

    # ---- L5 check-then-act: the progress a mutation is decided on is read under the same lock ---------------------------
    # (a stale read before the lock — e.g. the continuity test `min_filtered + 1 == start_number` — lets a rewind by a fork rollback
    # or set_scripts that ran in between be overwritten: no serial order explains the result)
    nread = 0
    for b in P.bodies:
        if b.promoted is not None:
            continue
        keys = P.call_keys(b)
        if not any(k in SINKS for _, k, _ in keys):
            continue
        if b.name in EXEMPT:
            continue          # init_genesis_block: before any other thread exists (checked under L1 above)
        for bid, k, t in keys:
            if k not in PROGRESS_READERS:
                continue
            nread += 1
            held = bool(L.held_at(b, bid, 'L_mb', 'write')) or L._last_body_protected(b, bid)
            ctx.ob('C17.L5', b.name, 'read of sync progress (%s) in a function that mutates it happens under the matched-blocks write lock' % k, held, at=t.span)
    ctx.floor('C17.L5', 'sync-progress reads in mutating functions', nread, 4)
    # .. the same for the functions that only touch the IN-MEMORY half of the progress (the matched-blocks map, recovered from the
    # stored pending record): a function that takes the write lock at all decides on the stored progress it reads, so those reads
    # belong inside the lock (seeded C17-6: the recovery timer read the pending record first and locked afterwards; set_scripts
    # discarded the record in between and the stale hashes were recovered into the map)
    nread2 = 0
    for b in P.bodies:
        if b.promoted is not None or b.name in EXEMPT:
            continue
        if not any(r.lock == 'L_mb' and r.mode == 'write' for r in L.regions(b)):
            continue
        keys = P.call_keys(b)
        if any(k in SINKS for _, k, _ in keys):
            continue          # decided above
        for bid, k, t in keys:
            # only the stored pending records (what the map is loaded from); the min filtered number such a function reads is
            # used to build a REQUEST, whose answer is re-validated under the lock by BlockFiltersProcess
            if k not in ('Storage::get_earliest_matched_blocks', 'Storage::get_latest_matched_blocks', 'Storage::get_matched_blocks'):
                continue
            nread2 += 1
            held = bool(L.held_at(b, bid, 'L_mb', 'write')) or L._last_body_protected(b, bid)
            ctx.ob('C17.L5', b.name, 'read of the stored pending matched blocks (%s) in a function that takes the matched-blocks write lock happens under that lock' % k, held, at=t.span)
    ctx.floor('C17.L5', 'sync-progress reads in functions that lock the matched-blocks map', nread2, 1)

    # ---- L2 ------------------------------------------------------------------------------
    acq = L.acquire_sets()
    sink_reach = {f for f in P.mentions() if (P.transitive_callees(f) | {f}) & set(SINKS)}
    for b in P.bodies:
        if b.promoted is not None:
            continue
        rs = [r for r in L.regions(b) if r.lock == 'L_mb' and r.mode == 'write']
        # regions that contain a progress mutation
        rs = [r for r in rs if any(k in sink_reach or k in SINKS for bid, k, t in P.call_keys(b) if bid in r.blocks)]
        if len(rs) < 2:
            continue
        cfg = P.cfg(b)
        for i, r1 in enumerate(rs):
            for r2 in rs:
                if r1 is r2:
                    continue
                # release points of r1 = blocks of r1 whose successors leave r1
                exits = {s for x in r1.blocks for s in cfg.succ.get(x, ()) if s not in r1.blocks}
                reach = cfg.reachable_from(exits)
                ctx.ob('C17.L2', b.name, 'critical sections at %s and %s are alternatives, not a split operation' % (r1.at, r2.at),
                       r2.start not in reach, at=r1.at)

    # ---- L3 lock order / re-entrancy -----------------------------------------------------------
    edges = {}
    nreg = 0
    for b in P.bodies:
        if b.promoted is not None:
            continue
        for r in L.regions(b):
            nreg += 1
            inner = set()
            for bid in r.blocks:
                blk = b.blocks[bid]
                t = blk.term
                if t.kind == 'drop':
                    continue
                if t.kind == 'call':
                    k = mir.callee_key(t.callee)
                    # direct acquisitions in this block
                    for _, lk, md, tt in L.direct_acquires(b):
                        if tt is t and bid != r.start:
                            inner.add((lk, md, t.span, 'direct'))
                    if P.has(k):
                        for lk, md in acq.get(k, ()):
                            inner.add((lk, md, t.span, 'via ' + k))
                # closures constructed while held
                for st in blk.stmts:
                    if st.kind == 'assign' and 'closure@' in st.rhs:
                        for c in P.closures_of(b, transitive=False):
                            m = re.search(r'\[closure@([^\]]+)\]', c.sig_args)
                            if m and ('closure@' + m.group(1)) in st.rhs:
                                for lk, md in L.acquire_sets_body(c):
                                    inner.add((lk, md, st.span, 'via closure'))
            for lk, md, sp, how in inner:
                edges.setdefault((r.lock, lk), []).append((b.name, r.mode, md, sp, how))
    ctx.floor('C17.L3', 'guard live ranges analysed', nreg, 40)
    # closures run by DashMap iterator adaptors execute while a shard lock is held
    for b in P.bodies:
        if b.promoted is not None:
            continue
        its = [(bid, lk, md, t) for bid, lk, md, t in L.direct_acquires(b) if re.search(r'::(iter|iter_mut)$', mir.strip_generics(t.callee))]
        for bid, lk, md, t in its:
            for c in P.closures_of(b, transitive=False):
                for lk2, md2 in L.acquire_sets_body(c):
                    edges.setdefault((lk, lk2), []).append((b.name, md, md2, t.span, 'closure run by DashMap iterator'))
    # re-entrancy
    for (x, y), ws in sorted(edges.items()):
        if x != y:
            continue
        for (fn, m1, m2, sp, how) in ws:
            ctx.ob('C17.L3', fn, 'no acquisition of %s (%s) while a %s guard of it is live' % (x, m2, m1), False, at=sp, how=how)
    ctx.ob('C17.L3', '<lock graph>', 'no lock is re-acquired while held', not any(x == y for (x, y) in edges),
           reentrant=sorted(x for (x, y) in edges if x == y))
    # cycles among distinct locks
    graph = {}
    for (x, y) in edges:
        if x != y:
            graph.setdefault(x, set()).add(y)
    cyc = find_cycle(graph)
    ctx.ob('C17.L3', '<lock graph>', 'acquired-while-holding graph is acyclic', cyc is None, cycle=cyc,
           edges=sorted('%s->%s' % e for e in edges if e[0] != e[1]))

    # ---- L4 snapshot reads ----------------------------------------------------------------------
    db_readers = set()
    for b in P.bodies:
        if b.promoted is not None:
            continue
        for bid, k, t in P.call_keys(b):
            if re.match(r'^<DB as (Get|GetPinned|Iterate|GetCF|MultiGet)\w*>::', k):
                db_readers.add(P.parent_fn(b).name)
    ctx.floor('C17.L4', 'functions reading the DB directly', len(db_readers), 10)
    for q in QUERIES:
        Q = ctx.body(q)
        snaps = 0
        for c in [Q] + P.closures_of(Q):
            for bid, k, t in P.call_keys(c):
                if k.startswith('<Snapshot as '):
                    snaps += 1
                if re.match(r'^<DB as (Get|GetPinned|Iterate)', k):
                    ctx.ob('C17.L4', c.name, 'reads through the snapshot, not the live DB', False, at=t.span, callee=k)
        ctx.ob('C17.L4', q, 'query performs its reads on a Snapshot', snaps >= 2, snapshot_reads=snaps)
        direct = (P.transitive_callees(q)) & db_readers
        ctx.ob('C17.L4', q, 'no callee of the query reads the live DB', not direct, offenders=sorted(direct))
        mk = P.call_sites(Q, lambda k, t: k.endswith('::snapshot'))
        ctx.ob('C17.L4', q, 'exactly one snapshot is taken', len(mk) == 1, snapshots=len(mk))

    # ---- L6 (F50) the two writers of a transaction record exclude each other -------------------------------------------------
    # add_fetched_tx (light-client handler thread) decides on the stored record whether it writes a placeholder record;
    # filter_block (sync handler thread / RPC thread) writes the record with the real index.  Both hold Storage::tx_record_lock
    # from before their first read of the record to their commit.
    for fn in ('Storage::add_fetched_tx', 'Storage::filter_block'):
        B = ctx.body(fn)
        cfg = P.cfg(B)
        locks = [(b, t) for b, k, t in P.call_keys(B) if k.endswith('Mutex::lock')]
        commits = P.call_sites(B, 'Batch::commit')
        reads = P.call_sites(B, 'Storage::get_transaction') + [x for c in P.closures_of(B) for x in []]
        ok = bool(locks) and bool(commits)
        if ok:
            lb = locks[0][0]
            ok = all(cfg.dominates(lb, cb) for cb, _ in commits) and all(cfg.dominates(lb, rb) for rb, _ in reads)
            # the guard is alive until the commit: no drop of the guard local can reach a commit
            gl = None
            du_ = __import__('engine.defuse', fromlist=['DefUse']).DefUse(B)
            for b2, k2, t2 in P.call_keys(B):
                if k2.endswith('Result::expect') or k2.endswith('Result::unwrap'):
                    if any(o[0] == 'call' and o[1].endswith('Mutex::lock') for o in du_.origins(t2.args[0])):
                        gl = t2.dest.strip()
            drops = [bid for bid, blk in B.blocks.items() if not blk.cleanup and blk.term.kind == 'drop' and gl and blk.term.place.strip() == gl]
            if gl is None:
                ok = False
            for d in drops:
                if any(cb in cfg.reachable_from(cfg.succ[d]) for cb, _ in commits):
                    ok = False
        ctx.ob('C17.L6', fn, 'the transaction record is read and written under Storage::tx_record_lock', ok, locks=len(locks),
               failing_history=None if ok else 'thread A add_fetched_tx(T) reads "no record", thread B filter_block commits (T, real index), A writes (T, u32::MAX): '
               'when the cell of T is spent the delete key is built from u32::MAX, the spent cell stays live; no serial order gives that')
    # ---- L7 (F51) the blocks-proof request slot of a peer is checked and set in one critical section -------------------------
    L7 = Locks(P)
    prot_any, wit_any = L7.protected('L_mb', None)
    nslot = 0
    for b in P.bodies:
        if b.promoted is not None:
            continue
        for bid, k, t in P.call_keys(b):
            if k != 'Peers::update_blocks_proof_request':
                continue
            # clearing the slot (None) is not a registration
            arg = t.args[2] if len(t.args) > 2 else ''
            if re.search(r'Option::<.*>::None', ' '.join(s_.rhs for blk in b.blocks.values() for s_ in blk.stmts
                                                        if s_.kind == 'assign' and s_.lhs.strip() == arg.replace('move ', '').strip())):
                continue
            nslot += 1
            held = bool(L7.held_at(b, bid, 'L_mb', None)) or L7._last_body_protected(b, bid)
            ctx.ob('C17.L7', b.name, 'a blocks-proof request is registered for an idle peer under the matched-blocks lock', held, at=t.span,
                   failing_history=None if held else 'fetch_headers_txs (light-client thread) and prove_or_download_matched_blocks (filter thread) both find the slot of peer P '
                   'empty, both send GetBlocksProof, one registration is overwritten: the answer to it is UnexpectedResponse and the honest peer is banned')
    ctx.floor('C17.L7', 'registrations of a blocks-proof request', nslot, 2)
    # ---- (F58) readers see index and tip of one point in time also during a fork switch -----------------------------------------
    RB = ctx.body('Storage::rollback_to_block')
    tip_in_batch = bool(P.const_uses(RB, 'LAST_STATE_KEY'))
    ctx.ob('C17.L4', 'LightClientProtocol::commit_prove_state', 'the fork rollback and the new tip are one atomic write', tip_in_batch,
           failing_history=None if tip_in_batch else 'get_cells_capacity takes its snapshot between rollback_to_block (own batch) and update_last_state: it returns the '
           'rolled-back capacity together with the tip of the abandoned branch, a pair that exists in no serial order')


def find_cycle(graph):
    color = {}
    stack = []

    def dfs(u):
        color[u] = 1
        stack.append(u)
        for v in graph.get(u, ()):
            if color.get(v) == 1:
                return stack[stack.index(v):] + [v]
            if color.get(v) is None:
                r = dfs(v)
                if r:
                    return r
        stack.pop()
        color[u] = 2
        return None
    for u in list(graph):
        if color.get(u) is None:
            r = dfs(u)
            if r:
                return r
    return None
