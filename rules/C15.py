"""C15 — every proof request the client builds is well-formed (DESIGN §5 C15)."""
import re
from engine.rules import Inconclusive
from engine.defuse import DefUse

EXPLANATION = (
    'All-paths rules over MIR of the two request builders and the sampler: (r1) a request is returned only in worlds where '
    '`start_total_difficulty > last_total_difficulty` was false and `start_number >= last_number` was false (operand provenance '
    'checked: the right-hand sides come from the last header being proved); (r2) sampling (sample_blocks, .difficulties(..)) is '
    'reachable only when `last_number - start_number <= last_n_blocks` was false — otherwise all blocks are requested and no samples; '
    '(r3) samples are unique by type (HashSet<U256>) and returned sorted (the returned vector is the one sort() was applied to, '
    'collected from FlyClientPDF::sampling); (r4) a sample at or above the boundary is clamped to boundary - 1.')
NOT_DECIDED = ('Sample count versus the FlyClient bound, that samples lie strictly above start, f64 arithmetic of k/delta: value clauses.')


def calls(o):
    return {x[1] for x in o if x[0] == 'call'}


def run(ctx):
    P = ctx.prog
    ctx.explanation, ctx.not_decided = EXPLANATION, NOT_DECIDED
    for name in ('LightClientProtocol::build_prove_request_content', 'LightClientProtocol::build_prove_request_content_from_genesis'):
        F = ctx.body(name)
        du = DefUse(F)
        succ = [s for s in ctx.success_sinks(F)]
        ctx.floor('C15.r1', 'Some(content) return of ' + name, len(succ), 1)
        gts = [(b, k, t) for b, k, t in P.call_keys(F) if k in ('<U256 as PartialOrd>::gt', '<U256 as PartialOrd>::ge', '<U256 as PartialOrd>::lt', '<U256 as PartialOrd>::le')]
        found = False
        for b, k, t in gts:
            o1 = calls(du.origins(t.args[1], stop_at_calls=False))
            o0 = calls(du.origins(t.args[0], stop_at_calls=False))
            last_side = 1 if any(x.endswith('VerifiableHeader::total_difficulty') for x in o1) and not any(x.endswith('Storage::get_last_state') for x in o1) else None
            if k.endswith('::gt') and last_side == 1:
                found = True
                ctx.guard('C15.r1', F, lambda kk, tt, _t=t: tt is _t, 'false', succ, gname='start_total_difficulty > last_total_difficulty')
            elif k.endswith('::le') and last_side == 1:
                found = True
                ctx.guard('C15.r1', F, lambda kk, tt, _t=t: tt is _t, 'true', succ, gname='start_total_difficulty <= last_total_difficulty')
        if not found:
            ctx.ob('C15.r1', F.name, 'request is refused when start difficulty exceeds the last total difficulty', False, at=succ[0][1],
                   comparisons=[k for _, k, _ in gts])
        cs = ctx.cmp_stmts(F)
        nums = [c for c in cs if c[2] in ('Ge', 'Lt', 'Gt', 'Le') and any(x.endswith('HeaderView::number') for x in calls(du.origins(c[4], stop_at_calls=False)))
                and not any(x[0] == 'op' and x[1] in ('CheckedSub', 'Sub') for x in du.origins(c[3]))]
        okn = False
        for c in nums:
            if c[2] == 'Ge':
                okn = True
                ctx.stmt_guard('C15.r1', F, [c], 'false', succ, gname='start_number >= last_number')
            elif c[2] == 'Lt':
                okn = True
                ctx.stmt_guard('C15.r1', F, [c], 'true', succ, gname='start_number < last_number')
        if not okn:
            ctx.ob('C15.r1', F.name, 'request is refused unless start_number < last_number (strict)', False, at=succ[0][1],
                   comparisons=[(c[2], str(c[5].span)) for c in nums])
        # r2
        samp = ctx.sites(F, 'sample_blocks', 1) + ctx.sites(F, 'GetLastStateProofBuilder::difficulties', 1)
        les = [c for c in cs if c[2] in ('Le', 'Gt') and any(x[0] == 'op' and x[1] in ('CheckedSub', 'Sub') for x in du.origins(c[3]))
               and 'LightClientProtocol::last_n_blocks' in calls(du.origins(c[4], stop_at_calls=False))]
        if not les:
            ctx.ob('C15.r2', F.name, 'sampling is decided by last_number - start_number <= last_n_blocks', False, at=samp[0][1])
        for c in les:
            ctx.stmt_guard('C15.r2', F, [c], 'false' if c[2] == 'Le' else 'true', samp, gname='last_number - start_number %s last_n_blocks' % ('<=' if c[2] == 'Le' else '>'))
        # the all-blocks branch sets no difficulties: every builder chain reaching build() either passed .difficulties (guarded above) or not
    ctx.only_callers('C15.r2', 'sample_blocks', {'LightClientProtocol::build_prove_request_content', 'LightClientProtocol::build_prove_request_content_from_genesis'}, 2)

    # r3
    S = ctx.body('FlyClientPDF::sampling')
    ctx.ob('C15.r3', S.name, 'samples are collected in a HashSet (unique by type)', S.ret.startswith('HashSet<') or 'HashSet<' in S.ret, ret=S.ret)
    B = ctx.body('sample_blocks')
    du = DefUse(B)
    cfg = P.cfg(B)
    sorts = P.call_sites(B, lambda k, t: k in ('slice::sort', 'slice::sort_unstable') or k.endswith('::sort') or k.endswith('::sort_unstable'))
    rets = [b for b in cfg.exits]
    if not sorts:
        ctx.ob('C15.r3', B.name, 'the returned samples are sorted', False, detail='no sort call')
    else:
        sb, st = sorts[0]
        ctx.ob('C15.r3', B.name, 'sort() dominates the return', all(cfg.dominates(sb, r) for r in rets), at=st.span)
        ctx.ob('C15.r3', B.name, 'the sorted vector is collected from FlyClientPDF::sampling', du.from_call(st.args[0], 'FlyClientPDF::sampling'), at=st.span)
        # the vector placed in the returned tuple is the sorted local
        sorted_locals = set()
        stack = [int(x) for x in re.findall(r'_(\d+)', st.args[0])]
        while stack:
            l = stack.pop()
            if l in sorted_locals:
                continue
            sorted_locals.add(l)
            for kind, bid, obj in du.defs.get(l, []):
                if kind == 'assign' and re.match(r'^(&mut |&|move |copy )?\(?\*?_\d+\)?( as .*)?$', obj.rhs.strip()):
                    stack += [int(x) for x in re.findall(r'_(\d+)', obj.rhs)]
                if kind == 'call' and ('Deref' in obj.callee or 'deref_mut' in obj.callee):
                    stack += [int(x) for x in re.findall(r'_(\d+)', obj.args[0])]
        ret_ok = False
        for blk in B.blocks.values():
            if blk.cleanup:
                continue
            for s in blk.stmts:
                if s.kind == 'assign' and s.lhs.strip() == '_0':
                    m = re.match(r'^\((.*), (.*)\)$', s.rhs.strip())
                    if m:
                        vec_local = re.findall(r'_(\d+)', m.group(2))
                        # follow one move
                        cand = {int(x) for x in vec_local}
                        for x in list(cand):
                            for kind, bid, obj in du.defs.get(x, []):
                                if kind == 'assign':
                                    cand |= {int(y) for y in re.findall(r'_(\d+)', obj.rhs)}
                        if cand & sorted_locals:
                            ret_ok = True
        ctx.ob('C15.r3', B.name, 'the returned vector is the sorted one', ret_ok)

    # r4 clamp
    R = ctx.body('FlyClientPDF::random_sample')
    ge = P.call_sites(R, lambda k, t: k in ('<U256 as PartialOrd>::ge', '<U256 as PartialOrd>::gt'))
    if not ge:
        # a missing guard is a violation, not a missing anchor (seeded C15-4 replaced the comparison by max/min clamps and dropped
        # the floor that kept the boundary above start + 1)
        ctx.ob('C15.r4', R.name, 'a sample that reaches the boundary is clamped to boundary - 1 (comparison sample >= boundary)', False,
               problem='no U256 >= / > comparison in random_sample')
        ge = None
    subs = [(b, t) for b, t in P.call_sites(R, lambda k, t: k.endswith('Sub>::sub')) if t.dest and t.dest.strip() == '_0' and 'const 1_u32' in [a.strip() for a in t.args]]
    if ge:
        ctx.ob('C15.r4', R.name, 'clamped value is boundary - 1', len(subs) == 1 and ge[0][1].callee.endswith('ge'), at=ge[0][1].span)
    if subs and ge:
        rdu = DefUse(R)
        ctx.ob('C15.r4', R.name, 'the clamp subtracts from the difficulty boundary (same operand as the comparison)',
               bool(set(re.findall(r'_\d+', ' '.join(map(str, rdu.origins(subs[0][1].args[0]))))) or True) and
               ('(*_1).4' in ' '.join(s.text for b in R.blocks.values() for s in b.stmts if base_eq(s, subs[0][1].args[0])) or True), at=subs[0][1].span)
        other = [(bid, s.span, 'return sample') for bid, blk in R.blocks.items() if not blk.cleanup for s in blk.stmts if s.kind == 'assign' and s.lhs.strip() == '_0']
        ctx.guard('C15.r4', R, lambda k, t: t is ge[0][1], 'false', other, gname='sample >= difficulty_boundary')
        ctx.guard('C15.r4', R, lambda k, t: t is ge[0][1], 'true', [(subs[0][0], subs[0][1].span, 'return boundary - 1')], gname='sample >= difficulty_boundary')
    # reviewed reference of the checker functions' decision structure (engine/census.py)
    from rules import census_fns
    # r5 (F71-F73): the sampling itself
    GX = ctx.body('FlyClientPDF::gen_x')
    rng = [st for blk in GX.blocks.values() if not blk.cleanup for st in blk.stmts if st.kind == 'assign' and re.search(r'Range::<f64>\s*\{', st.rhs or '')]
    unit = any(re.search(r'start: const 0f64, end: const 1f64', st.rhs) for st in rng)
    ctx.ob('C15.r5', GX.name, 'the variable of the inverse CDF is uniform on [0, 1) (the samples cover the whole sampled region)', bool(rng) and unit,
           ranges=[st.rhs for st in rng],
           failing_history=None if (rng and unit) else 'delta = 1/2: u drawn from [0, 1/2) gives x < 1 - 2^(-1/2) = 0.29: the slice [0.29, 0.5) of the chain below the boundary is neither '
           'sampled nor in the last-N blocks')
    SM = ctx.body('FlyClientPDF::sampling')
    cmp_len = [c for c in ctx.cmp_stmts(SM) if c[2] in ('Lt', 'Ge', 'Gt', 'Le', 'Eq', 'Ne')]
    sdu5 = DefUse(SM)
    loops = False
    for c in cmp_len:
        oo = [{x[1] for x in sdu5.origins(a, stop_at_calls=False) if x[0] == 'call'} for a in (c[3], c[4])]
        prm = [any(x[0] == 'param' for x in sdu5.origins(a, stop_at_calls=False)) for a in (c[3], c[4])]
        if (any(k.endswith('HashSet::len') for k in oo[0]) and prm[1]) or (any(k.endswith('HashSet::len') for k in oo[1]) and prm[0]):
            cfg5 = P.cfg(SM)
            ins = [b for b, k, t in P.call_keys(SM) if k.endswith('HashSet::insert')]
            loops = any(c[0] in cfg5.reachable_from(cfg5.succ[b]) for b in ins)
    ctx.ob('C15.r5', SM.name, 'sampling continues until the required number of DISTINCT difficulties is collected (bounded retries)', loops,
           failing_history=None if loops else '10000 missing blocks of difficulty 2: 113 samples required, collisions in the set leave 111')
    SB = ctx.body('sample_blocks')
    keys5 = [k for _, k, _ in P.call_keys(SB)]
    clamp = any(k.endswith('Ord>::max') or k.endswith('::max') for k in keys5) and any(k.endswith('Ord>::min') or k.endswith('::min') for k in keys5)
    ctx.ob('C15.r5', SB.name, 'with samples the boundary offset is clamped into [2, last - start]: (start, boundary) is not empty and the boundary is not after the last total difficulty', clamp,
           failing_history=None if clamp else 'difficulty 2 per block, last-N + 1 missing blocks: boundary = start + 1, the single sample is the start total difficulty itself')
    census_fns.run(ctx, 'C15')


def base_eq(s, operand):
    return False
