"""C08 — a crash at any storage write loses no script activity and leaves a usable store (DESIGN §5 C08).

Only write-ORDER obligations are decided; each rule names the crash point that loses data or
bricks the store when the order is violated.
"""
import re
from engine.rules import Inconclusive
from engine.defuse import DefUse
from engine import mir

EXPLANATION = (
    'Write-order discipline decided over MIR control flow: durable-write sites are discovered as the callers of the RocksDB write '
    'primitives (put / delete / write-batch), all of which must live in storage.rs (layering). (R1) the pending-work record of a '
    'matched-block batch is removed only after every block of the batch was indexed and the script numbers updated; (R2) the '
    '"already initialised" marker is the last durable write of first-run initialisation; (R3) a filter batch is recorded before '
    'the filter progress moves past it; (R4) the filter-progress rewind of set_scripts is not a separate write after the script '
    'batch; (R5) indexing and rolling back one block are each a single atomic batch.')
NOT_DECIDED = ('Convergence of RPC answers after a crash at every write boundary of every history (value clause over histories x crash '
               'points); atomicity of update_last_state\'s two puts is advisory only (no crash point found that necessarily breaks behaviour).')

PRIMS = ('<DB as Put>::put', '<DB as Delete>::delete', '<DB as WriteOps>::write', '<DB as Merge>::merge', '<DB as DeleteRange>::delete_range')
RECV = '<SyncProtocol as CKBProtocolHandler>::received::{closure#0}'


def writers(P):
    """top-level functions that perform a durable write directly: name -> [(body, bid, term)]"""
    out = {}
    for b in P.bodies:
        if b.promoted is not None:
            continue
        for bid, k, t in P.call_keys(b):
            if any(k == p or k.startswith(p.split('>::')[0] + '>::') and k.split('>::')[-1] in ('put', 'delete', 'write', 'merge', 'delete_range', 'put_cf', 'delete_cf')
                   for p in PRIMS) and k.startswith('<DB as '):
                out.setdefault(P.parent_fn(b).name, []).append((b, bid, t))
    return out


def durable(P, W):
    """functions that (transitively) perform a durable write"""
    res = set(W)
    m = P.mentions()
    changed = True
    while changed:
        changed = False
        for f, cs in m.items():
            if f not in res and cs & res:
                res.add(f)
                changed = True
    return res


def run(ctx):
    P = ctx.prog
    ctx.explanation, ctx.not_decided = EXPLANATION, NOT_DECIDED
    W = writers(P)
    ctx.floor('C08.P1', 'functions with a RocksDB write primitive', len(W), 4)  # non-vacuity floor (6 on b5706de: two single puts were folded into batches by F45 / F48)
    for f, sites in sorted(W.items()):
        b = sites[0][0]
        ctx.ob('C08.P1', f, 'durable write primitive lives in storage.rs', b.file == 'src/storage.rs' and (f.startswith('Storage::') or f.startswith('Batch::')),
               at=sites[0][2].span, sites=len(sites))
    D = durable(P, W)

    # R1 -----------------------------------------------------------------------------------
    R = ctx.body(RECV)
    cfg = P.cfg(R)
    rm = P.call_sites(R, 'Storage::remove_matched_blocks')
    fb = P.call_sites(R, 'Storage::filter_block')
    ub = P.call_sites(R, 'Storage::update_block_number')
    ctx.floor('C08.R1', 'remove_matched_blocks / filter_block / update_block_number in SyncProtocol::received', min(len(rm), len(fb), len(ub)), 1)
    after = cfg.reachable_from(cfg.succ[rm[0][0]])
    ctx.ob('C08.R1', R.name, 'matched-blocks record is removed only after its blocks were indexed', not any(x[0] in after for x in fb), at=rm[0][1].span,
           crash_point='after remove_matched_blocks, before filter_block: record gone, MIN_FILTERED_NUMBER already past the batch -> blocks never downloaded again')
    ctx.ob('C08.R1', R.name, 'matched-blocks record is removed only after the script block numbers were updated', not any(x[0] in after for x in ub), at=rm[0][1].span)
    ctx.ob('C08.R1', R.name, 'the record is removed on every path that indexed the batch', all(cfg.postdominates(rm[0][0], x[0]) for x in ub), at=rm[0][1].span)

    # R2 -----------------------------------------------------------------------------------
    G = ctx.body('Storage::init_genesis_block')
    gcfg = P.cfg(G)
    gdu = DefUse(G)
    marker_puts = []
    for bid, k, t in P.call_keys(G):
        if (k in ('Batch::put_kv', 'Batch::put') or k == '<DB as Put>::put') and len(t.args) >= 2:
            o = gdu.origins(t.args[1], stop_at_calls=False)
            if ('named_const', 'GENESIS_BLOCK_KEY') in o:
                marker_puts.append((bid, k, t))
    ctx.floor('C08.R2', 'put of the GENESIS_BLOCK marker', len(marker_puts), 1)
    mb, mk, mt = marker_puts[0]
    if mk.startswith('Batch::'):
        commits = [c for c in P.call_sites(G, 'Batch::commit') if c[0] in gcfg.reachable_from([mb])]
        ctx.floor('C08.R2', 'commit of the batch holding the marker', len(commits), 1)
        cb, ct = commits[0]
    else:
        cb, ct = mb, mt
    later = gcfg.reachable_from(gcfg.succ[cb])
    late_writes = sorted({k for bid, k, t in P.call_keys(G) if bid in later and (k in D or k.startswith('<DB as Put>') or k.startswith('<DB as Delete>') or k.startswith('<DB as WriteOps>'))})
    ctx.ob('C08.R2', G.name, 'the initialised-marker is the last durable write of first-run initialisation', not late_writes, at=ct.span,
           writes_after_marker=late_writes,
           crash_point='after the marker batch: every later start skips init and accessors such as get_max_check_point_index().expect(..) abort forever')
    # every other write of the initialisation precedes the marker
    inits = [k for k in ('Storage::update_last_state', 'Storage::update_max_check_point_index', 'Storage::update_check_points', 'Storage::update_min_filtered_block_number')]
    for k in inits:
        cs = P.call_sites(G, k)
        ctx.ob('C08.R2', G.name, '%s is durable before the marker' % k, bool(cs) and all(gcfg.dominates(c[0], cb) for c in cs))
    # the marker is what the "already initialised" test reads
    reads = [t for bid, k, t in P.call_keys(G) if k == 'Storage::get' and ('named_const', 'GENESIS_BLOCK_KEY') in gdu.origins(t.args[1], stop_at_calls=False)]
    ctx.ob('C08.R2', G.name, 'the initialised test reads the same marker key', len(reads) >= 1)

    # R3 -----------------------------------------------------------------------------------
    B = ctx.body('BlockFiltersProcess::execute')
    bcfg = P.cfg(B)
    am = P.call_sites(B, 'Storage::add_matched_blocks')
    um = P.call_sites(B, 'FilterProtocol::update_min_filtered_block_number')
    ctx.floor('C08.R3', 'add_matched_blocks / update_min_filtered_block_number in BlockFiltersProcess::execute', min(len(am), len(um)), 1)
    aft = bcfg.reachable_from(bcfg.succ[um[0][0]])
    ctx.ob('C08.R3', B.name, 'matched blocks are recorded before the filter progress advances', not any(x[0] in aft for x in am), at=um[0][1].span,
           crash_point='progress advanced, record not yet written: the matched blocks of the batch are never downloaded')

    # R4 -----------------------------------------------------------------------------------
    U = ctx.body('Storage::update_filter_scripts')
    ucfg = P.cfg(U)
    uc = P.call_sites(U, 'Batch::commit')
    ctx.floor('C08.R4', 'batch.commit in update_filter_scripts', len(uc), 1)
    aft = ucfg.reachable_from(ucfg.succ[uc[0][0]])
    sep = [t for bid, t in P.call_sites(U, 'Storage::update_min_filtered_block_number') if bid in aft]
    in_batch = any(('named_const', 'MIN_FILTERED_BLOCK_NUMBER') in DefUse(U).origins(t.args[1], stop_at_calls=False)
                   for bid, k, t in P.call_keys(U) if k in ('Batch::put_kv', 'Batch::put') and len(t.args) >= 2 and bid not in aft)
    ctx.ob('C08.R4', U.name, 'the filter-progress rewind is not a separate write after the script batch', not sep, at=(sep[0].span if sep else uc[0][1].span),
           rewind_in_batch=in_batch,
           crash_point='between the script batch and the rewind: a script registered below the current progress is never examined for the skipped range')

    # (F48) ... nor is the removal of the pending matched-blocks records: a stale record recovered after a crash marks the new scripts as
    # filtered up to the end of its range when it completes
    clr = [(bid, t) for bid, t in P.call_sites(U, 'Storage::clear_matched_blocks')]
    sepc = [t for bid, t in clr if bid in aft] + [t for bid, t in P.call_sites(U, 'Storage::remove_matched_blocks') if bid in aft]
    ctx.ob('C08.R4', U.name, 'the pending matched-blocks records are not removed by a separate write after the script batch', bool(clr) and not sepc,
           at=(sepc[0].span if sepc else uc[0][1].span),
           crash_point='between the script batch and the clear: record (26, 7) survives; after restart its blocks are downloaded and update_block_number(32) '
           'moves the script that was just registered at 0 to 32')
    # (F49) the genesis block is filtered after the commit (it needs the committed scripts): the crash window is closed at start-up,
    # init_genesis_block filters it again while a registered script is still at block 0
    IG = ctx.body('Storage::init_genesis_block')
    igfb = P.call_sites(IG, 'Storage::filter_block')
    gen_after = [t for bid, t in P.call_sites(U, 'Storage::filter_block') if bid in aft]
    ctx.ob('C08.R4', IG.name, 'a set_scripts that died before filtering the genesis block is completed at start-up (filter_block for scripts at block 0)',
           (not gen_after) or (bool(igfb) and bool(P.call_sites(IG, 'Storage::get_filter_scripts'))), at=igfb[0][1].span if igfb else None,
           crash_point='after the script batch, before filter_block(genesis): the script stays registered at 0, filters are requested from block 1')
    # R7 (F45) the stored tip and its last-N headers are one write: a tip with the last-N headers of the previous tip makes the next
    # reorg of that tip look like a long fork (abort on every start)
    ULS = ctx.body('Storage::update_last_state')
    direct_puts = [k for _, k, _ in P.call_keys(ULS) if re.match(r'^<DB as (Put|Delete)', k)]
    called = P.transitive_callees(ULS.name)
    indirect = sorted(f for f in called if f != ULS.name and f in W and not f.startswith('Batch::'))
    ncommit = len(P.call_sites(ULS, 'Batch::commit'))
    keys = {n for n in ('LAST_STATE_KEY', 'LAST_N_HEADERS_KEY') if P.const_uses(ULS, n)}
    ctx.ob('C08.R7', ULS.name, 'LAST_STATE and LAST_N_HEADERS are written by one batch commit', not direct_puts and not indirect and ncommit == 1 and len(keys) == 2,
           direct_puts=direct_puts, writers_called=indirect, commits=ncommit, keys=sorted(keys),
           crash_point='after the tip put, before the last-N put: tip 30 with the headers remembered for tip 10; a 1-block reorg of 30 finds no fork point -> '
           'proof from genesis -> panic!("long fork detected") on every start')

    # R5 -----------------------------------------------------------------------------------
    for name in ('Storage::filter_block', 'Storage::rollback_to_block'):
        Fb = ctx.body(name)
        ncommit = 0
        direct = []
        for c in [Fb] + P.closures_of(Fb):
            for bid, k, t in P.call_keys(c):
                if k == 'Batch::commit':
                    ncommit += 1
                elif k in D and k not in ('Batch::commit', 'Batch::put', 'Batch::put_kv', 'Batch::delete'):
                    direct.append(k)
        ctx.ob('C08.R5', name, 'one atomic batch per block (exactly one commit, no other durable write)', ncommit == 1 and not direct,
               commits=ncommit, other_writes=sorted(set(direct)))
    # R6 fork switch: rollback is durable before the new tip (shared with C04.r2)
    from rules.C04 import tip_after_rollback
    tip_after_rollback(ctx, 'C08.R6')
    # reviewed reference of the storage functions' durable writes (engine/census.py)
    from rules import census_fns
    census_fns.run(ctx, 'C08')
