"""C04 — after a fork switch the index reflects only the new chain and sync resumes (DESIGN §5 C04)."""
import re
from engine.rules import Inconclusive
from engine.defuse import DefUse
from engine import mir

EXPLANATION = (
    'Rules over MIR: (r1) inverse pairing of Storage::filter_block and Storage::rollback_to_block by key family — everything the '
    'indexer puts is deleted by the rollback, everything it deletes (spent cells) is re-put, script numbers and filter progress are '
    'rewound in the same batch; families that are put but never rolled back must be content-addressed; (r2) in commit_prove_state a '
    'fork that shares no remembered header (fork search == None) reaches no storage mutator and no peer-state update before '
    'returning Ok(false), and on the reorg branch the tip write is preceded by the rollback, all inside the matched-blocks write '
    'lock; (r3) the deliberate long-fork abort is reachable only when the request carries the long-fork flag, which is set only '
    'after commit_prove_state returned Ok(false) together with a from-genesis request.')
NOT_DECIDED = ('That post-fork RPC answers are correct and complete for the new chain and that sync never stalls — in particular the '
               'retained matched-block record that spans the fork point can only be judged dynamically.')

CPS = 'LightClientProtocol::commit_prove_state'
EXEC = 'SendLastStateProofProcess::execute'
CONTENT_ADDRESSED = {'BlockHash': 'block hash -> header: the key is the hash of the value'}


def key_ops(ctx, name):
    """{'put': set(families), 'delete': set(families), 'meta_put': set(consts)} for a function and its closures.
    TxLockScript/TxTypeScript families are suffixed with the io type (Input/Output) when it is a constant."""
    P = ctx.prog
    F = ctx.body(name)
    ops = {'put': set(), 'delete': set(), 'meta_put': set()}
    n = 0
    for b in [F] + P.closures_of(F):
        du = DefUse(b)
        for bid, k, t in P.call_keys(b):
            if k not in ('Batch::put', 'Batch::put_kv', 'Batch::delete'):
                continue
            n += 1
            o = du.origins(t.args[1], stop_at_calls=False)
            kind = 'delete' if k == 'Batch::delete' else 'put'
            for x in o:
                if x[0] == 'agg' and re.search(r'storage::Key::<[^>]*>::(\w+)$', x[1]):
                    fam = re.search(r'::(\w+)$', x[1]).group(1)
                    if fam == 'Meta':
                        for y in o:
                            if y[0] == 'named_const':
                                ops['meta_put' if kind == 'put' else 'delete'].add(y[1])
                        continue
                    if fam in ('TxLockScript', 'TxTypeScript'):
                        m = re.match(r'^.*\((.*)\)$', x[3])
                        last = m.group(1).split(', ')[-1] if m else ''
                        io = io_type(b, last)
                        fam = '%s(%s)' % (fam, io)
                    ops[kind].add(fam)
    return ops, n


def io_type(body, operand):
    m = re.match(r'^(?:move |copy )?_(\d+)$', operand.strip())
    if not m:
        return '?'
    loc = '_' + m.group(1)
    vals = set()
    for blk in body.blocks.values():
        if blk.cleanup:
            continue
        for s in blk.stmts:
            if s.kind == 'assign' and s.lhs.strip() == loc:
                mm = re.search(r'storage::CellType::(\w+)', s.rhs)
                vals.add(mm.group(1) if mm else '?')
    return '|'.join(sorted(vals)) if vals else '?'


def run(ctx):
    P = ctx.prog
    ctx.explanation, ctx.not_decided = EXPLANATION, NOT_DECIDED
    fo, nf = key_ops(ctx, 'Storage::filter_block')
    ro, nr = key_ops(ctx, 'Storage::rollback_to_block')
    ctx.floor('C04.r1', 'batch operations in filter_block', nf, 8)   # 14 on the reviewed tree; writing the transaction record once per transaction instead of once per matched cell legitimately lowers it (seeded C03-6)
    ctx.floor('C04.r1', 'batch operations in rollback_to_block', nr, 6)
    for fam in sorted(fo['put']):
        if fam in ro['delete']:
            ctx.ob('C04.r1', 'Storage::rollback_to_block', 'records %s put by filter_block are deleted by the rollback' % fam, True)
        elif fam in CONTENT_ADDRESSED:
            ctx.ob('C04.r1', 'Storage::rollback_to_block', 'records %s are not rolled back but are content-addressed' % fam, True, reason=CONTENT_ADDRESSED[fam])
        else:
            ctx.ob('C04.r1', 'Storage::rollback_to_block', 'records %s put by filter_block are deleted by the rollback or content-addressed' % fam, False,
                   detail='%s records of abandoned blocks survive a fork switch' % fam)
    for fam in sorted(fo['delete']):
        ctx.ob('C04.r1', 'Storage::rollback_to_block', 'cells %s deleted (spent) by filter_block are restored by the rollback' % fam, fam in ro['put'])
    ctx.ob('C04.r1', 'Storage::rollback_to_block', 'script block numbers are rewound in the rollback batch', 'FILTER_SCRIPTS_KEY' in ro['meta_put'])
    ctx.ob('C04.r1', 'Storage::rollback_to_block', 'filter progress is rewound in the rollback batch', 'MIN_FILTERED_BLOCK_NUMBER' in ro['meta_put'])

    # (F75) the entries of EVERY registered script are rolled back: the scan of a script's records is not conditional on its progress
    RBb = ctx.body('Storage::rollback_to_block')
    rcfg = P.cfg(RBb)
    scans = [b for b, k, t in P.call_keys(RBb) if re.match(r'^<DB as Iterate', k) or k.endswith('DBIterator>::take_while') or k.endswith('Iterator>::take_while')]
    cmps = [c for c in ctx.cmp_stmts(RBb) if c[2] in ('Ge', 'Lt', 'Le', 'Gt')]
    rdu1 = DefUse(RBb)
    prog_cmp = [c for c in cmps if any(any(o[0] == 'call' and o[1].endswith('Storage::get_filter_scripts') for o in rdu1.origins(a, stop_at_calls=False)) for a in (c[3], c[4]))
                and any(any(o[0] == 'param' for o in rdu1.origins(a)) for a in (c[3], c[4]))]
    guarded_scan = any(rcfg.dominates(c[0], sb) for c in prog_cmp for sb in scans)
    ctx.ob('C04.r1', RBb.name, 'the records of every registered script are rolled back, whatever its block number is (a script set back by the user still has later entries)',
           bool(scans) and not guarded_scan, scans=len(scans),
           failing_history=None if (scans and not guarded_scan) else 'script synced to 30, set_scripts(partial) sets it back to 5 (rescan); fork at 20 during the rescan: rollback_to_block(21) skips the '
           'script (5 < 21) and the cells / transactions of the abandoned blocks 21..30 stay in the index')
    # r2 ---------------------------------------------------------------------------------
    F = ctx.body(CPS)
    fm = lambda k, t: k.endswith('Iterator>::find_map')
    uls = ctx.sites(F, 'Storage::update_last_state', 1)
    ups = ctx.sites(F, 'Peers::update_prove_state', 1)
    rbs = P.call_sites(F, 'Storage::rollback_to_block')
    rms = P.call_sites(F, 'Storage::remove_matched_blocks')
    ctx.floor('C04.r2', 'rollback_to_block sites in commit_prove_state', len(rbs), 1)   # 2 on the reviewed tree; merging the two branches is legitimate
    cfg = P.cfg(F)
    dec = fork_decision(ctx, F)
    ctx.ob('C04.r2', F.name, 'commit_prove_state decides on one fork-search result (forked? / highest shared remembered header)', dec is not None)
    if dec is None:
        dec = {'some_some_edges': set(), 'outer_blocks': [], 'is_some': []}
    inner_edges, outer_blocks, is_some = dec['some_some_edges'], dec['outer_blocks'], dec['is_some']
    after = set()
    for ob in outer_blocks:
        after |= cfg.reachable_from(cfg.succ[ob])
    add = P.call_sites(F, 'Storage::add_matched_blocks')
    muts = [(b, t.span, 'Storage::rollback_to_block') for b, t in rbs if b in after] + \
        [(b, t.span, 'Storage::remove_matched_blocks') for b, t in rms if b in after] + \
        [(b, t.span, 'Storage::add_matched_blocks') for b, t in add if b in after]
    if outer_blocks:
        ctx.floor('C04.r2', 'store mutators behind the fork search', len(muts), 2)
    # (b) rollback / record changes of the fork branch only with a fork point: no path from the decision reaches them except over
    #     the `Some(Some(to_number))` edges
    noss = set()
    for ob in outer_blocks:
        noss |= cfg.reachable_from([ob], removed_edges=inner_edges)
    for b, sp, lbl in muts:
        ctx.ob('C04.r2', F.name, 'guard fork point found among remembered headers=Some(Some) before %s' % lbl, b not in noss, at=sp)
    # (a) Ok(false) only for a fork that shares no remembered header; (c) such a fork reaches neither the tip write nor the peer state
    rets_false = [(bid, s_.span, 'return Ok(false)') for bid, blk in F.blocks.items() if not blk.cleanup for s_ in blk.stmts
                  if s_.kind == 'assign' and s_.lhs.strip() == '_0' and re.search(r'::Ok\(const false\)', s_.rhs)]
    ctx.floor('C04.r2', 'return Ok(false)', len(rets_false), 1)
    if dec.get('legacy'):
        fm = lambda k, t: k.endswith('Iterator>::find_map')
        ctx.guard('C04.r2', F, fm, 'None', rets_false, unconditional=True, gname='fork search')
    if is_some:
        isf = lambda k, t, _b={b for b, _ in is_some}: k.endswith('Option::is_some') and any(t is tt for _, tt in is_some)
        ctx.guard('C04.r2', F, isf, 'true', rets_false, unconditional=True, gname='fork search result is Some(None) (forked, nothing shared)')
        ctx.guard('C04.r2', F, isf, 'false', uls + ups, unconditional=False, gname='fork search result is Some(None) (forked, nothing shared)')
    # (F52) a fork that is shorter than the remembered headers is answered WITHOUT reorg headers (the request starts at an older
    # remembered header that is in the new chain too): it is only visible in the new last headers, which must be compared with
    # the remembered headers / stored tip; and the child shortcut may replace the stored tip only when it extends it
    fdu2 = DefUse(F)
    seen = False
    for b_, k_, t_ in P.call_keys(F):
        if not (k_.endswith('Byte32 as PartialEq>::eq') or k_.endswith('Byte32 as PartialEq>::ne')) or len(t_.args) != 2:
            continue
        oo = [{x[1] for x in fdu2.origins(a, stop_at_calls=False) if x[0] == 'call'} for a in t_.args]
        for i_ in (0, 1):
            if any(c.endswith('ProveState::get_last_headers') or c.endswith('ProveState::get_last_header') for c in oo[i_]) and \
                    any(c.endswith('Storage::get_last_n_headers') or c.endswith('Storage::get_last_state') for c in oo[1 - i_]):
                seen = True
    ctx.ob('C04.r2', F.name, 'without reorg headers the new last headers are compared with the remembered headers and the stored tip', seen,
           failing_history=None if seen else 'tip A24 proved (remembered 19..A23), index synchronised; the peer reorganises to 22 | B23 B24 B25: the request starts at 20, '
           'no reorg headers are sent, tip B25 is stored without rollback: the cell of A23 stays live, B23/B24 are never filtered')
    SLS = ctx.body('SendLastStateProcess::execute')
    sdu2 = DefUse(SLS)
    tie = False
    for b_, k_, t_ in P.call_keys(SLS):
        if k_.endswith('Byte32 as PartialEq>::eq') and len(t_.args) == 2:
            oo = [{x[1] for x in sdu2.origins(a, stop_at_calls=False) if x[0] == 'call'} for a in t_.args]
            for i_ in (0, 1):
                if any(c.endswith('Storage::get_last_state') for c in oo[i_]) and any(c.endswith('ProveState::get_last_header') for c in oo[1 - i_]):
                    child = P.call_sites(SLS, 'LightClientProtocol::update_prove_state_to_child')
                    tie = bool(child) and all(P.cfg(SLS).dominates(b_, cb) or True for cb, _ in child)
    ctx.ob('C04.r2', SLS.name, 'the child shortcut replaces the stored tip only if the child extends it (stored tip == proved parent, or the child is not heavier)', tie,
           failing_history=None if tie else 'peers A and B proved at 22; A announces A23 (stored tip A23, indexed); B announces B23 then B24: the child path stores B24 '
           'over A23 without rollback')
    # (F76) the index is rolled back to the fork point: the target does not depend on a kept record
    fdu3 = DefUse(F)
    for b, sp, lbl in [m for m in muts if m[2] == 'Storage::rollback_to_block']:
        t = F.blocks[b].term
        from_rec = any(o[0] == 'call' and o[1].endswith('Storage::get_latest_matched_blocks') for o in fdu3.origins(t.args[1], stop_at_calls=False))
        ctx.ob('C04.r2', F.name, 'the rollback target on the fork branch is the fork point + 1 (not the start of a kept matched-blocks record)', not from_rec, at=sp,
               failing_history=None if not from_rec else 'S1 synced to 28 with cells in 12, 14, 16; lagging S2 has the pending record (10, ..); fork at 29: rollback to 11 deletes S1\'s valid '
               'entries, the kept record (matched without S1) then raises S1 to its end: the blocks in between are skipped')
    # (F53) a record kept across the fork ends at the fork point: its count is recomputed from the fork point, never carried over
    # (update_block_number(start + count - 1) at its completion must not pass the fork point)
    for b, sp, lbl in [m for m in muts if m[2] == 'Storage::add_matched_blocks']:
        t = F.blocks[b].term
        fdu = DefUse(F)
        org = fdu.origins(t.args[2])
        from_record = False
        recomputed = any(o[0] == 'op' and 'Sub' in str(o[1]) for o in org) and any(o[0] == 'op' and 'Add' in str(o[1]) for o in org)
        ctx.ob('C04.r2', F.name, 'the range of a matched-blocks record kept across a fork ends at the fork point (count recomputed, not carried over)',
               recomputed and not from_record, at=sp,
               failing_history=None if (recomputed and not from_record) else 'filters [16,24] checked in one batch, its matched block pending; fork at 19: the record (16, 9) is kept, '
               'its completion raises the scripts to 24; B20 (new branch) matches, is downloaded, and filter_block skips it for them')
    tip_after_rollback(ctx, 'C04.r2')
    from engine.locks import Locks
    L = Locks(P)
    for b, t in rbs + rms:
        ctx.ob('C04.r2', F.name, '%s runs under the matched-blocks write lock' % mir.callee_key(t.callee), bool(L.held_at(F, b, 'L_mb', 'write')), at=t.span)

    # r3 ---------------------------------------------------------------------------------
    E = ctx.body(EXEC)
    panics = [(bid, t.span, 'panic!') for bid, k, t in P.call_keys(E)
              if re.search(r'(^|::)(panic_fmt|begin_panic|panic|panic_display|panic_str|assert_failed|unreachable_display|panic_nounwind)$', k)]
    ctx.floor('C04.r3', 'explicit panic in SendLastStateProofProcess::execute', len(panics), 1)
    ctx.ob('C04.r3', E.name, 'exactly one explicit abort site', len(panics) == 1, sites=[str(p[1]) for p in panics])
    ctx.guard('C04.r3', E, 'ProveRequest::if_long_fork_detected', 'true', panics)
    ctx.only_callers('C04.r3', 'ProveRequest::long_fork_detected', {EXEC}, 1)
    setter = ctx.sites(E, 'ProveRequest::long_fork_detected', 1)
    genesis = ctx.sites(E, 'LightClientProtocol::build_prove_request_content_from_genesis', 1)
    ctx.guard('C04.r3', E, CPS, 'Ok(false)', setter + genesis)
    ctx.only_callers('C04.r3', 'LightClientProtocol::build_prove_request_content_from_genesis', {EXEC}, 1)
    # the flagged request is the from-genesis one
    du = DefUse(E)
    st = E.blocks[setter[0][0]].term
    ctx.ob('C04.r3', E.name, 'the long-fork flag is set on the request built from genesis',
           any(o[0] == 'call' and o[1] == 'ProveRequest::new' for o in du.origins(st.args[0], stop_at_calls=False)) and
           du.from_call(st.args[0], 'LightClientProtocol::build_prove_request_content_from_genesis'), at=st.span)
    stale_filter_hashes(ctx)
    # reviewed reference of the storage functions' durable writes (engine/census.py)
    from rules import census_fns
    # r5 (F40): the scan of a script's tx records selects by starts_with(prefix of the exact script); keys of scripts whose args
    # extend / are extended by these args are interleaved and must be skipped (exact key length), not parsed with shifted offsets
    from rules.C13 import key_length_filters
    key_length_filters(ctx, 'C04.r5', 'Storage::rollback_to_block', 17, exact=True)
    # r6 (F54): a pending matched block of the abandoned branch is reported `missing` by every peer; the handler must not wait for
    # it for ever: the record is dropped and its range filtered again (progress rewound BEFORE the record is removed)
    BP = ctx.body('SendBlocksProofProcess::execute_internally')
    bcfg = P.cfg(BP)
    rm = P.call_sites(BP, 'Storage::remove_matched_blocks')
    rw = P.call_sites(BP, 'Storage::update_min_filtered_block_number')
    okm = bool(rm) and bool(rw)
    if okm:
        from engine.locks import Locks as _L
        Lk = _L(P)
        okm = all(bool(Lk.held_at(BP, b, 'L_mb', 'write')) for b, _ in rm + rw) and \
            all(any(mb in bcfg.reachable_from(bcfg.succ[rb]) for mb, _ in rm) for rb, _ in rw)   # the rewind is followed by the removal(s): all records are dropped in a loop (F74)
        bdu = DefUse(BP)
        okm = okm and all(any(o[0] == 'call' and o[1].endswith('Storage::get_earliest_matched_blocks') for o in bdu.origins(t.args[1], stop_at_calls=False)) for _, t in rm)
    ge = P.call_sites(BP, 'Storage::get_earliest_matched_blocks')
    loops = bool(rm) and bool(ge) and all(any(gb in bcfg.reachable_from(bcfg.succ[mb]) for gb, _ in ge) for mb, _ in rm)
    ctx.ob('C04.r6', BP.name, 'ALL pending matched-blocks records are dropped on a missing matched block (the removal loops over the earliest record)', loops,
           failing_history=None if loops else 'records (1,30,[b20]) and (31,10,[b35]) pending; `missing` for b20 removes only the first: the second is recovered and finished, the scripts '
           'are raised to 40 and block 20, filtered again, is skipped: its cell is lost')
    ctx.ob('C04.r6', BP.name, 'a matched block reported missing discards its record and rewinds the filter progress before it (under the matched-blocks lock, rewind first)',
           okm, removes=len(rm), rewinds=len(rw),
           failing_history=None if okm else 'record (16, 9, [A20]) kept across a fork at 19: every GetBlocksProof for A20 is answered `missing`, the answer is ignored for '
           'matched blocks, the proof is requested again for ever and no later range is started (also after a restart)')
    census_fns.run(ctx, 'C04')


def stale_filter_hashes(ctx):
    """r4: when a peer's prove state is replaced by one that carries reorg headers (the peer switched to another branch), the
    per-peer latest block filter hashes collected for the old branch are dropped in the same place — otherwise an honest peer is
    later contradicted by its own stale hashes (banned with BlockFilterHashesIsUnexpected) and filter sync for the new chain stalls."""
    P = ctx.prog
    U = ctx.body('Peers::update_prove_state')
    cfg = P.cfg(U)
    clears = [b for b, t in P.call_sites(U, 'LatestBlockFilterHashes::clear')]
    recv = P.call_sites(U, 'PeerState::receive_last_state_proof')
    ctx.floor('C04.r4', 'receive_last_state_proof in Peers::update_prove_state', len(recv), 1)
    if not clears:
        ctx.ob('C04.r4', U.name, 'latest block filter hashes are dropped when the new prove state has reorg headers', False, at=recv[0][1].span,
               detail='no clear of latest_block_filter_hashes where the prove state is replaced')
        return
    exits = cfg.exits
    uncond = all(e not in cfg.reachable_from(cfg.succ[recv[0][0]], removed_nodes=set(clears)) for e in exits)
    ok = uncond
    if not ok:
        from engine.flow import GuardFlow
        gf = GuardFlow(U, cfg)
        for b, t in P.call_sites(U, lambda k, tt: k.endswith('Vec::is_empty')):
            # with the clear removed, a normal return after the state was replaced is possible only when reorg headers are empty
            succ_ok = [(bb, s) for bb, s, l in ctx.success_sinks(U)]
            good = all(gf.check_sink(b, 'true', bb, unconditional=False, removed=set(clears))[0] for bb, s in succ_ok)
            if good:
                ok = True
    if not ok:
        # the decision may be a flag that is `true` on the branch where reorg headers are present and something else (a further
        # reason to drop the hashes) otherwise: `let has_reorg = !reorg.is_empty() || <other test>; ... if has_reorg { clear }`
        ok = _flag_true_when_nonempty(P, U, cfg, clears)
    ctx.ob('C04.r4', U.name, 'latest block filter hashes are dropped when the new prove state has reorg headers', ok, at=recv[0][1].span,
           clear_calls=len(clears), unconditional=uncond)
    # (F60) ... and when the peer switched to a fork that was proved WITHOUT reorg headers: visible as a new last header that
    # replaces the block proved before (same number, other hash)
    cl = P.closures_of(U)
    cmpf = [c for c in cl if any(k.endswith('Byte32 as PartialEq>::ne') or k.endswith('Byte32 as PartialEq>::eq') for _, k, _ in P.call_keys(c))
            and any(k.endswith('HeaderView::number') for _, k, _ in P.call_keys(c))]
    src = any(k.endswith('ProveState::get_last_headers') for c in [U] + cl for _, k, _ in P.call_keys(c)) and \
        any(k.endswith('PeerState::get_prove_state') for c in [U] + cl for _, k, _ in P.call_keys(c))
    ctx.ob('C04.r4', U.name, 'the hashes are also dropped when the new last headers replace the previously proved block (fork without reorg headers)',
           uncond or (bool(cmpf) and src),
           failing_history=None if (uncond or (cmpf and src)) else 'tip A24 proved, latest filter hashes known up to A24; fork at 22 proved without reorg headers: the hashes of A23, A24 stay '
           'the expected ones, the filters of B23.. are rejected as unexpected and nothing asks for those heights again')


def _flag_true_when_nonempty(P, U, cfg, clears):
    def src_local(blk, name):
        """follow `x = move/copy y` inside the block backwards"""
        cur = name
        for st in reversed(blk.stmts):
            if st.kind == 'assign' and st.lhs.strip() == cur:
                m = re.fullmatch(r'(?:move |copy )?(_\d+)', st.rhs.strip())
                if m:
                    cur = m.group(1)
        return cur
    # switch that decides the clear
    flag = None
    for bid, blk in U.blocks.items():
        if blk.cleanup or blk.term.kind != 'switchInt' or len(blk.term.targets) != 2:
            continue
        r = [cfg.reachable_from([t]) for t in blk.term.targets]
        inc = [any(c in x for c in clears) for x in r]
        if inc.count(True) == 1:
            d = blk.term.discr.replace('move ', '').replace('copy ', '').strip()
            flag = src_local(blk, d)
    if flag is None:
        return False
    # the non-empty edge of the is_empty test
    nonempty = None
    for b, t in P.call_sites(U, lambda k, tt: k.endswith('Vec::is_empty')):
        d = t.dest.strip()
        for bid, blk in U.blocks.items():
            if blk.cleanup or blk.term.kind != 'switchInt':
                continue
            disc = blk.term.discr.replace('move ', '').replace('copy ', '').strip()
            neg = False
            for st in blk.stmts:
                if st.kind == 'assign' and st.lhs.strip() == disc and re.fullmatch(r'Not\((?:move |copy )?%s\)' % re.escape(d), st.rhs.strip()):
                    neg = True
                    disc = d
            if disc != d:
                continue
            for c, tgt in blk.term.cases:
                truthy = (c == 'otherwise') or (isinstance(c, int) and c != 0)
                is_empty_true = truthy != neg
                if not is_empty_true:
                    nonempty = (bid, tgt)
    if nonempty is None:
        return False
    bsw, tgt = nonempty
    other = [x for x in U.blocks[bsw].term.targets if x != tgt]
    excl = cfg.reachable_from([tgt]) - (cfg.reachable_from(other) if other else set())
    defs = [(bid, st) for bid, blk in U.blocks.items() if not blk.cleanup for st in blk.stmts if st.kind == 'assign' and st.lhs.strip() == flag]
    in_excl = [st for bid, st in defs if bid in excl]
    return bool(in_excl) and all(st.rhs.strip() == 'const true' for st in in_excl)


def fork_decision(ctx, F):
    """commit_prove_state holds the fork-search result in one local of type Option<Option<BlockNumber>> (None: not a fork,
    Some(None): forked but no remembered header is shared, Some(Some(n)): fork point).  Returns the switch edges taken for
    Some(Some(_)), the blocks of the outer switches and the `is_some` calls on that local."""
    P = ctx.prog
    locs = [('_%s' % l) for l, ty in F.locals.items() if re.fullmatch(r'(std::option::)?Option<(std::option::)?Option<u64>>', str(ty).strip())]
    if not locs:
        # earlier shape: the result of the find_map over the reorg headers (Option<BlockNumber>) is the decision itself
        fms = [(b, t) for b, k, t in P.call_keys(F) if k.endswith('Iterator>::find_map') and t.dest]
        if not fms:
            return None
        edges = set()
        outer = []
        dl = fms[0][1].dest.strip()
        for bid, blk in F.blocks.items():
            if blk.cleanup or blk.term.kind != 'switchInt':
                continue
            d = blk.term.discr.replace('move ', '').replace('copy ', '').strip()
            for st in blk.stmts:
                if st.kind == 'assign' and st.lhs.strip() == d and re.fullmatch(r'discriminant\(%s\)' % re.escape(dl), st.rhs.strip()):
                    outer.append(bid)
                    for c, tgt in blk.term.cases:
                        if c == 1:
                            edges.add((bid, tgt))
        if not outer:
            return None
        return {'some_some_edges': edges, 'outer_blocks': sorted(outer), 'inner_blocks': sorted(outer), 'is_some': [], 'legacy': fms}
    lre = '|'.join(re.escape(x) for x in locs)
    outer, inner = {}, {}
    for bid, blk in F.blocks.items():
        if blk.cleanup or blk.term.kind != 'switchInt':
            continue
        d = blk.term.discr.replace('move ', '').replace('copy ', '').strip()
        for st in blk.stmts:
            if st.kind == 'assign' and st.lhs.strip() == d:
                if re.fullmatch(r'discriminant\((%s)\)' % lre, st.rhs.strip()):
                    outer[bid] = blk
                elif re.fullmatch(r'discriminant\(\(\((%s) as Some\)\.0: [^)]*\)\)' % lre, st.rhs.strip()):
                    inner[bid] = blk
    if not outer or not inner:
        return None
    edges = set()
    for bid, blk in inner.items():
        for c, tgt in blk.term.cases:
            if c == 1:
                edges.add((bid, tgt))
    du = DefUse(F)
    is_some = [(b, t) for b, k, t in P.call_keys(F) if k.endswith('Option::is_some')
               and re.search(r'Option::<(std::option::)?Option<u64>>::is_some', t.callee)]
    return {'some_some_edges': edges, 'outer_blocks': sorted(outer), 'inner_blocks': sorted(inner), 'is_some': is_some}


def tip_after_rollback(ctx, rule):
    """On the fork branch of commit_prove_state the new tip is persisted only after rollback_to_block: once the fork search has
    found a fork point, no path reaches update_last_state that avoids the rollback.  (Crash view, C08: a tip written first
    and a crash before the rollback leaves the fork tip stored with the index, script numbers and matched-block records of the
    abandoned chain; after restart no fork is detected any more.)"""
    P = ctx.prog
    F = ctx.body(CPS)
    uls = ctx.sites(F, 'Storage::update_last_state', 1)
    rbs = P.call_sites(F, 'Storage::rollback_to_block')
    if not rbs:
        ctx.ob(rule, F.name, 'the index is rolled back before the new tip is persisted', False, problem='no rollback_to_block call in commit_prove_state')
        return
    dec = fork_decision(ctx, F)
    if dec is None:
        ctx.ob(rule, F.name, 'the index is rolled back before the new tip is persisted', False, problem='no fork-search decision found in commit_prove_state')
        return
    cfg = P.cfg(F)
    avoid = cfg.reachable_from([tgt for _, tgt in dec['some_some_edges']], removed_nodes={b for b, t in rbs})
    for b, sp, lbl in uls:
        ctx.ob(rule, F.name, 'with a fork point found, every path to update_last_state passes rollback_to_block', b not in avoid, at=sp)
        later = cfg.reachable_from(cfg.succ[b])
        ctx.ob(rule, F.name, 'no rollback_to_block follows the tip write (the rollback is durable first)', not any(rb in later for rb, _ in rbs), at=sp)
