"""C09 — set_scripts does what the README says and never makes a kept script lose history (DESIGN §5 C09)."""
import os
import re
from engine.rules import Inconclusive
from engine.defuse import DefUse
from engine import variants as V

EXPLANATION = (
    'Rules over the MIR of Storage::update_filter_scripts and the set_scripts RPC: (r1) the storage effects of each command arm '
    '(put / delete / delete-all-under-prefix) equal the table documented in README.md (all = replace, partial = upsert, delete = '
    'remove) and empty partial/delete commands have no effect; (r2) the filter-progress rewind value is assigned in the all and '
    'partial arms from the given block numbers through min (partial: also min with the current progress unless no script was '
    'registered) and not at all in the delete arm; (r3) pending matched blocks are cleared after every effective command, in the '
    'store and in memory; (r4) the whole operation runs under the matched-blocks write lock; (r5) update_block_number only raises a '
    'script\'s recorded number.')
NOT_DECIDED = 'That the rewind is far enough for every command sequence and every sync position (value clause over histories).'

UFS = 'Storage::update_filter_scripts'
STORAGE_RS = 'src/storage.rs'


def readme_table(repo):
    txt = open(os.path.join(repo, 'README.md'), errors='replace').read()
    tab = {}
    for name, desc in re.findall(r'^\s*"(all|partial|delete)"\s*-\s*(.+)$', txt, flags=re.M):
        d = desc.lower()
        if d.startswith('replace all'):
            tab[name] = {'scan_delete', 'put'}
        elif d.startswith('update partial'):
            tab[name] = {'put'}
        elif d.startswith('delete scripts'):
            tab[name] = {'delete'}
        else:
            raise Inconclusive('README set_scripts: unrecognised description for %r: %r' % (name, desc))
    if set(tab) != {'all', 'partial', 'delete'}:
        raise Inconclusive('README set_scripts table not found')
    return tab


def run(ctx):
    P = ctx.prog
    ctx.explanation, ctx.not_decided = EXPLANATION, NOT_DECIDED
    F = ctx.body(UFS)
    cfg = P.cfg(F)
    du = DefUse(F)
    vs = V.enum_variants(P.repo, STORAGE_RS, 'SetScriptsCommand')
    if not vs or [v[0] for v in vs] != ['All', 'Partial', 'Delete']:
        raise Inconclusive('enum SetScriptsCommand changed: %r' % (vs,))
    cmd = F.debug.get('command')
    disp = None
    for bid in sorted(cfg.reachable()):
        blk = F.blocks[bid]
        if blk.term.kind == 'switchInt' and any(s.kind == 'assign' and s.rhs.strip() == 'discriminant(%s)' % cmd for s in blk.stmts):
            disp = bid
            break
    if disp is None:
        raise Inconclusive('no match on the command in update_filter_scripts')
    arms = {}
    for cval, tgt in F.blocks[disp].term.cases:
        if isinstance(cval, int) and cval < 3:
            arms[vs[cval][0]] = tgt
    if len(arms) != 3:
        raise Inconclusive('command dispatch does not list the three variants: %r' % arms)
    reach = {a: cfg.reachable_from([t], removed_nodes={disp}) for a, t in arms.items()}
    excl = {a: reach[a] - set().union(*[reach[b] for b in arms if b != a]) for a in arms}
    commit = P.call_sites(F, 'Batch::commit')
    ctx.floor('C09.r1', 'batch.commit in update_filter_scripts', len(commit), 1)
    doc = readme_table(P.repo)
    eff = {}
    for a in arms:
        e = set()
        for bid in excl[a]:
            blk = F.blocks[bid]
            t = blk.term
            if t.kind == 'call':
                k = __import__('engine.mir', fromlist=['x']).callee_key(t.callee)
                if k in ('Batch::put', 'Batch::put_kv'):
                    e.add('put')
                if k == 'Batch::delete':
                    e.add('delete')
            for st in blk.stmts:
                if st.kind == 'assign' and 'closure@' in st.rhs:
                    for c in P.closures_of(F, transitive=False):
                        m = re.search(r'\[closure@([^\]]+)\]', c.sig_args)
                        if m and ('closure@' + m.group(1)) in st.rhs and P.call_sites(c, 'Batch::delete'):
                            # delete inside a closure fed by a prefix scan of the DB
                            if any(F.blocks[b2].term.kind == 'call' and 'Iterate>::iterator' in F.blocks[b2].term.callee for b2 in excl[a]):
                                e.add('scan_delete')
                            else:
                                e.add('delete')
        eff[a] = e
    for a, name in (('All', 'all'), ('Partial', 'partial'), ('Delete', 'delete')):
        ctx.ob('C09.r1', F.name, 'command %s has the documented effects %s' % (name, sorted(doc[name])), eff[a] == doc[name], got=sorted(eff[a]))
    # the prefix scan in All covers exactly FILTER_SCRIPTS: take_while(starts_with(key_prefix))
    ctx.ob('C09.r1', F.name, 'the delete-all scan is bounded by the FILTER_SCRIPTS prefix',
           bool(P.const_uses(F, 'FILTER_SCRIPTS_KEY')) and any(P.call_sites(c, lambda k, t: k.endswith('starts_with')) for c in P.closures_of(F)))
    # empty partial / delete: nothing happens
    empt = P.call_sites(F, lambda k, t: k.endswith('Vec::is_empty'))
    for a in ('Partial', 'Delete'):
        here = [e for e in empt if e[0] in excl[a] or e[0] == arms[a]]
        if not here:
            ctx.ob('C09.r1', F.name, 'empty %s command is a no-op' % a.lower(), False, detail='no is_empty test in the arm')
            continue
        sinks = [(commit[0][0], commit[0][1].span, 'batch.commit')]
        ctx.guard('C09.r1', F, lambda k, t, _h=here[0][1]: t is _h, 'false', sinks, unconditional=False, gname='scripts.is_empty() [%s]' % a)

    # r2 rewind value
    mbn = F.debug.get('min_block_number')
    if not mbn:
        raise Inconclusive('debug local min_block_number not found')
    assigns = {}
    for bid, blk in F.blocks.items():
        if blk.cleanup:
            continue
        for s in blk.stmts:
            if s.kind == 'assign' and s.lhs.strip() == mbn:
                for a in arms:
                    if bid in excl[a] or bid == arms[a]:
                        assigns.setdefault(a, []).append((bid, s))
        t = blk.term
        if t.kind == 'call' and t.dest and t.dest.strip() == mbn:
            for a in arms:
                if bid in excl[a] or bid == arms[a]:
                    assigns.setdefault(a, []).append((bid, t))
    # discarding the pending matched blocks (r3) drops blocks that the KEPT scripts still need: for the commands that keep the
    # other scripts (partial, delete) the progress must be rewound before the earliest discarded range (F29)
    em = P.call_sites(F, 'Storage::get_earliest_matched_blocks')
    flows = False
    reach_ok = False
    if em:
        eb = em[0][0]
        for bid, blk in F.blocks.items():
            if blk.cleanup:
                continue
            for st in blk.stmts:
                if st.kind == 'assign' and st.lhs.strip() == mbn and any(o[0] == 'call' and o[1] == 'Storage::get_earliest_matched_blocks' for o in du.origins(st.rhs, stop_at_calls=False)):
                    flows = True
        reach_ok = all(eb in cfg.reachable_from([arms[a]]) for a in ('Partial', 'Delete') if a in arms)
    ctx.ob('C09.r2', F.name, 'partial / delete rewind the filter progress before the earliest pending matched range they discard',
           bool(em) and flows and reach_ok, at=em[0][1].span if em else None,
           failing_history=None if (em and flows and reach_ok) else 'A@20 kept, filters 21..27 checked with a matched block pending, min filtered 27; set_scripts(delete B) or '
           'set_scripts(partial C@1000): pending record cleared, progress stays 27: the matched block is never downloaded for A')
    # All: Some(ss.block_number) chosen when smaller than the current candidate
    alls = assigns.get('All', [])
    gtc = [c for c in P.closures_of(F, transitive=False) if any(x[2] in ('Gt', 'Lt') and x[5].lhs.strip() == '_0' for x in ctx.cmp_stmts(c))]
    is_flag_guard = lambda k, t: (k.endswith('Option::unwrap_or') or k.endswith('Option::map_or') or k.endswith('Option::is_none_or') or k.endswith('Option::map_or_else')) and t.dest and F.locals.get(int(t.dest.strip()[1:]), '') == 'bool'
    # the same decision written inline (`match min { Some(lowest) if lowest <= n => {}, _ => min = Some(n) }`, `if let Some(cur)
    # = min { if n < cur {..} }`): a primitive comparison between the payload of min_block_number and the new number, the
    # assignment being reachable only on the outcome "new is lower (or equal)"
    inline = []
    if alls and not (gtc and P.call_sites(F, is_flag_guard)):
        def _locals_back(op):
            out, stack = set(), [int(x) for x in re.findall(r'_(\d+)', op)]
            while stack:
                l = stack.pop()
                if l in out:
                    continue
                out.add(l)
                for kind, bid, obj in du.defs.get(l, []):
                    if kind == 'assign' and re.match(r"^(&(mut )?|move |copy |deref_copy )?\(?\*?[(_]", obj.rhs.strip()) and '(' not in obj.rhs.strip().split(' as ')[0].replace('(*', '').replace('((', ''):
                        stack += [int(x) for x in re.findall(r'_(\d+)', obj.rhs)]
                    elif kind == 'assign' and re.match(r"^(&(mut )?|move |copy |deref_copy )?[(*_\d). a-zA-Z:<>,]+$", obj.rhs.strip()):
                        stack += [int(x) for x in re.findall(r'_(\d+)', obj.rhs)]
            return out
        mloc = int(mbn[1:])
        for (cb, ci, op, a, bb, st) in ctx.cmp_stmts(F):
            if op not in ('Lt', 'Le', 'Gt', 'Ge') or not (cb in excl['All'] or cb == arms['All']):
                continue
            a_cur, b_cur = mloc in _locals_back(a), mloc in _locals_back(bb)
            if a_cur == b_cur:
                continue
            # cur OP new: assign on true for Gt/Ge, on false for Lt/Le; new OP cur: the other way round
            acc = ('true' if op in ('Gt', 'Ge') else 'false') if a_cur else ('true' if op in ('Lt', 'Le') else 'false')
            inline.append((cb, ci, acc))
    ctx.ob('C09.r2', F.name, 'all command rewinds to the minimum of the given block numbers', len(alls) >= 1 and (len(gtc) >= 1 or len(inline) >= 1),
           at=alls[0][1].span if alls else None, assignments=len(alls))
    if alls and inline:
        sinks_all = [(b, o.span, 'min_block_number = Some(ss.block_number)') for b, o in alls]
        for cb, ci, acc in inline:
            ctx.stmt_guard('C09.r2', F, [(cb, ci)], acc, sinks_all, unconditional=False, gname='current minimum compared with ss.block_number')
    elif alls:
        sinks_all = [(b, o.span, 'min_block_number = Some(ss.block_number)') for b, o in alls]
        ctx.guard('C09.r2', F, lambda k, t: (k.endswith('Option::unwrap_or') or k.endswith('Option::map_or') or k.endswith('Option::is_none_or') or k.endswith('Option::map_or_else')) and t.dest and F.locals.get(int(t.dest.strip()[1:]), '') == 'bool', 'true', sinks_all,
                  unconditional=True, gname='min_block_number.map(|n| n > ss.block_number).unwrap_or(true)')
    parts = assigns.get('Partial', [])
    po = set()
    for bid, obj in parts:
        txt = obj.rhs if hasattr(obj, 'rhs') else obj.args[0]
        if hasattr(obj, 'callee'):
            po |= {o[1] for o in du.origins(obj.args[0], stop_at_calls=False) if o[0] == 'call'} | {__import__('engine.mir', fromlist=['x']).callee_key(obj.callee)}
        else:
            po |= {o[1] for o in du.origins(txt, stop_at_calls=False) if o[0] == 'call'}
    has_min = any(k.endswith('Iterator>::min') for k in po)
    cl_min = any(P.call_sites(c, lambda k, t: k == 'Ord::min') and P.call_sites(c, 'Storage::get_min_filtered_block_number') for c in P.closures_of(F))
    ctx.ob('C09.r2', F.name, 'partial command rewinds to min(given block numbers, current progress)', bool(parts) and has_min and cl_min,
           origins=sorted(po)[:8])
    # the rewind value reaches update_min_filtered_block_number
    writes = [(t, t.args[1]) for b_, t in P.call_sites(F, 'Storage::update_min_filtered_block_number')]
    for bid, k, t in P.call_keys(F):
        if k in ('Batch::put', 'Batch::put_kv') and len(t.args) >= 3 and ('named_const', 'MIN_FILTERED_BLOCK_NUMBER') in du.origins(t.args[1], stop_at_calls=False):
            writes.append((t, t.args[2]))
    ctx.floor('C09.r2', 'write of MIN_FILTERED_NUMBER in update_filter_scripts', len(writes), 1)
    for t, val in writes:
        ctx.ob('C09.r2', F.name, 'the value written as filter progress is the computed minimum', int(mbn[1:]) in
               {int(x) for x in re.findall(r'_(\d+)', ' '.join(reach_locals(du, val)))}, at=t.span)

    # (F47) the filter syncing continues at stored progress + 1 in several places: the stored value is kept below u64::MAX whatever
    # start numbers the user gives
    bounded = False
    for t, val in writes:
        for o in du.origins(val, stop_at_calls=False):
            if o[0] == 'call' and o[1] == 'Ord::min':
                mt = F.blocks[o[2]].term
                for a in mt.args:
                    oa = du.origins(a)
                    if any(x[0] == 'op' and 'Sub' in str(x[1]) for x in oa) and not any(x[0] in ('call', 'param') for x in oa):
                        bounded = True
    ctx.ob('C09.r2', F.name, 'the stored filter progress is bounded below u64::MAX (min with a constant)', bounded,
           failing_history=None if bounded else 'set_scripts([A @ u64::MAX]): min filtered = u64::MAX, the filter timer computes min_filtered + 1 and panics every 3 s, '
           'also after a restart')
    # (F59, known) get_scripts after a fork rollback: rollback_to_block(n) removes block n; the progress it records for the scripts
    # must not claim block n (the replacement block n has not been examined)
    RB = ctx.body('Storage::rollback_to_block')
    rdu = DefUse(RB)
    prog_ok = None
    for c in [RB]:
        for bid, k, t in P.call_keys(c):
            if k in ('Batch::put', 'Batch::put_kv') and len(t.args) >= 3 and ('named_const', 'FILTER_SCRIPTS_KEY') in rdu.origins(t.args[1], stop_at_calls=False):
                ov = rdu.origins(t.args[2], stop_at_calls=False)
                prog_ok = any((x[0] == 'op' and 'Sub' in str(x[1])) or (x[0] == 'call' and 'saturating_sub' in x[1]) for x in ov)
    if prog_ok is None:
        raise Inconclusive('rollback_to_block: no put under FILTER_SCRIPTS_KEY found')
    ctx.ob('C09.r5', RB.name, 'the script progress recorded by a rollback to block n is n - 1 (block n itself is removed)', prog_ok,
           failing_history=None if prog_ok else 'fork rollback to block n: get_scripts reports n although the new block n is unexamined; set_scripts(get_scripts(), all) then sets '
           'min filtered = n and the new block n is never filtered')
    # r3 clear after commit
    # (F48) the pending records are discarded in the batch that holds the scripts and the rewind: a separate write after the
    # commit leaves, when the process dies in between, a stale record whose completion marks the new scripts as filtered up to its end
    cl = P.call_sites(F, 'Storage::clear_matched_blocks')
    same_batch = False
    if cl and commit and len(cl[0][1].args) > 1:
        a = {o[1] for o in du.origins(cl[0][1].args[1]) if o[0] == 'local'} | set(re.findall(r'_\d+', cl[0][1].args[1]))
        b = {o[1] for o in du.origins(commit[0][1].args[0]) if o[0] == 'local'} | set(re.findall(r'_\d+', commit[0][1].args[0]))
        roots = lambda xs: {x for v in xs for x in reach_locals(du, v if str(v).startswith('_') else '_%s' % v)}
        same_batch = bool(roots(a) & roots(b))
    ctx.ob('C09.r3', F.name, 'the pending matched-blocks records are deleted in the batch of the scripts, before its commit',
           bool(cl) and cfg.dominates(cl[0][0], commit[0][0]) and same_batch,
           at=cl[0][1].span if cl else commit[0][1].span, clear_calls=len(cl), same_batch=same_batch)
    S = ctx.body('<BlockFilterRpcImpl as BlockFilterRpc>::set_scripts')
    scfg = P.cfg(S)
    uf = P.call_sites(S, UFS)
    hc = P.call_sites(S, lambda k, t: k.startswith('HashMap') and k.endswith('::clear'))
    ctx.floor('C09.r3', 'update_filter_scripts in set_scripts', len(uf), 1)
    ctx.ob('C09.r3', S.name, 'in-memory matched blocks are cleared after the store was updated', bool(hc) and scfg.postdominates(hc[0][0], uf[0][0]),
           at=uf[0][1].span, clear_calls=len(hc))
    # (F46) store and memory agree on what is pending: if update_filter_scripts can return without discarding the records (the
    # empty partial / delete list), set_scripts must have a path that keeps the in-memory map as well (and does not touch the store)
    rets_u = [bid for bid, blk in F.blocks.items() if not blk.cleanup and blk.term.kind == 'return']
    noop_u = bool(cl) and any(r in cfg.reachable_from([cfg.entry], removed_nodes={b for b, _ in cl}) for r in rets_u)
    rets_s = [bid for bid, blk in S.blocks.items() if not blk.cleanup and blk.term.kind == 'return']
    noop_s = any(r in scfg.reachable_from([scfg.entry], removed_nodes={b for b, _ in uf} | {b for b, _ in hc}) for r in rets_s)
    ctx.ob('C09.r3', S.name, 'set_scripts keeps the in-memory pending blocks exactly when the store keeps its pending records (empty partial / delete list)',
           noop_u == noop_s, store_can_keep_records=noop_u, rpc_can_keep_memory=noop_s,
           failing_history=None if noop_u == noop_s else 'a matched block of batch [31,32] is pending; set_scripts([], partial): records kept, memory cleared; the next batch [33,34] '
           'without a match sees an empty map and raises every script to 34; block 31, recovered and downloaded later, is skipped for them')
    # r4 lock
    from engine.locks import Locks
    L = Locks(P)
    ctx.ob('C09.r4', S.name, 'update_filter_scripts runs under the matched-blocks write lock', bool(L.held_at(S, uf[0][0], 'L_mb', 'write')), at=uf[0][1].span)
    if hc:
        ctx.ob('C09.r4', S.name, 'the in-memory clear happens in the same critical section', bool(L.held_at(S, hc[0][0], 'L_mb', 'write')))
    # r5 only raises
    U = ctx.body('Storage::update_block_number')
    for c in P.closures_of(U):
        puts = [(b, t.span, 'batch.put') for b, t in P.call_sites(c, lambda k, t: k in ('Batch::put', 'Batch::put_kv'))]
        if not puts:
            continue
        ctx.fn(c)
        cs = [x for x in ctx.cmp_stmts(c) if x[2] in ('Lt', 'Gt', 'Le', 'Ge')]
        if not cs:
            ctx.ob('C09.r5', c.name, 'a script\'s block number is only raised', False, detail='unconditional put')
            continue
        cdu = DefUse(c)
        x = cs[0]
        a_from_stored = any(o[0] == 'call' and o[1].endswith('from_be_bytes') for o in cdu.origins(x[3], stop_at_calls=False))
        b_from_stored = any(o[0] == 'call' and o[1].endswith('from_be_bytes') for o in cdu.origins(x[4], stop_at_calls=False))
        want = None
        if a_from_stored and not b_from_stored:
            want = {'Lt': 'true', 'Ge': 'false'}.get(x[2])
        elif b_from_stored and not a_from_stored:
            want = {'Gt': 'true', 'Le': 'false'}.get(x[2])
        ctx.ob('C09.r5', c.name, 'the put is decided by stored_number < new_number (strict)', want is not None, at=x[5].span, op=x[2])
        if want:
            ctx.stmt_guard('C09.r5', c, [x], want, puts, gname='stored_block_number < block_number')
    batch_script_set(ctx)
    # reviewed reference of the storage functions' durable writes (engine/census.py)
    from rules import census_fns
    # ---- r7 the rewind of set_scripts is not overwritten (added after seeded C09-5) ---------------------------------------
    # set_scripts holds the matched-blocks write lock (r4) so that its rewind of the filter progress cannot interleave with a
    # filter batch or an arriving block.  That only helps if every OTHER function that moves the progress reads it and writes it
    # under the same lock: a batch that passed `min_filtered + 1 == start_number` before the rewind and writes afterwards puts the
    # progress back past blocks the new script has never been matched against.
    from rules import C17 as _c17
    from engine.locks import Locks as _Locks
    _L = _Locks(P)
    _L.protected('L_mb', 'write', exempt_callers=set(_c17.EXEMPT))
    _n = 0
    for _b in P.bodies:
        if _b.promoted is not None or _b.name in _c17.EXEMPT or P.parent_fn(_b).name in _c17.EXEMPT:
            continue
        _keys = P.call_keys(_b)
        if not any(k in ('Storage::update_min_filtered_block_number', 'FilterProtocol::update_min_filtered_block_number', 'Storage::update_block_number',
                         'Storage::add_matched_blocks') for _, k, _t in _keys):
            continue
        for _bid, _k, _t in _keys:
            if _k in _c17.PROGRESS_READERS or _k in ('Storage::update_min_filtered_block_number', 'Storage::update_block_number', 'Storage::add_matched_blocks'):
                _n += 1
                _held = bool(_L.held_at(_b, _bid, 'L_mb', 'write')) or _L._last_body_protected(_b, _bid)
                ctx.ob('C09.r7', _b.name, '%s runs under the lock that set_scripts holds (its rewind cannot be overwritten by a batch decided before it)' % _k,
                       _held, at=_t.span, failing_history=None if _held else 'BlockFilters batch 31..32 passes the continuity test, set_scripts(partial, new script @10) rewinds to 10, '
                       'the batch then stores progress 32: blocks 11..30 are never matched for the new script')
    ctx.floor('C09.r7', 'progress reads / writes outside set_scripts', _n, 4)
    census_fns.run(ctx, 'C09')


def _noop():
    pass


def reach_locals(du, operand):
    out = set()
    stack = [int(x) for x in re.findall(r'_(\d+)', operand)]
    while stack:
        l = stack.pop()
        if l in out:
            continue
        out.add(l)
        for kind, bid, obj in du.defs.get(l, []):
            if kind == 'assign':
                stack += [int(x) for x in re.findall(r'_(\d+)', obj.rhs)]
            elif kind == 'call':
                for a in obj.args:
                    stack += [int(x) for x in re.findall(r'_(\d+)', a)]
    return {'_%d' % x for x in out}


def batch_script_set(ctx, rule='C09.r6'):
    """r6: the scripts matched against a filter batch are those whose recorded block number is below the END of the batch
    (get_scripts_hash(start_number + limit)); update_block_number then raises every script below the batch end to it, so using a
    smaller bound (e.g. the batch start) silently skips a script registered inside the batch."""
    P = ctx.prog
    C = ctx.body('FilterProtocol::check_filters_data')
    du = DefUse(C)
    gs = P.call_sites(C, 'Storage::get_scripts_hash')
    ctx.floor(rule, 'get_scripts_hash in check_filters_data', len(gs), 1)
    t = gs[0][1]
    o = du.origins(t.args[1], stop_at_calls=False)
    has_add = any(x[0] == 'op' and x[1] in ('CheckedAdd', 'Add') for x in o)
    has_start = any(x[0] == 'call' and x[1].endswith('BlockFilters::start_number') for x in o)
    limit_local = C.debug.get('limit')
    has_limit = any(x[0] == 'param' and ('_%d' % x[1]) == limit_local for x in o)
    ctx.ob(rule, C.name, 'scripts are selected up to the end of the batch (start_number + limit)', has_add and has_start and has_limit, at=t.span,
           add=has_add, start_number=has_start, limit=has_limit)
    # the selection predicate itself: stored_block_number < given number
    G = ctx.body('Storage::get_scripts_hash')
    lts = [c for cl in P.closures_of(G) for c in ctx.cmp_stmts(cl) if c[2] in ('Lt', 'Le', 'Gt', 'Ge')]
    ctx.ob(rule, G.name, 'a script is selected iff its recorded block number is strictly below the bound', len(lts) == 1 and lts[0][2] == 'Lt', ops=[c[2] for c in lts])
    ctx.only_callers(rule, 'Storage::get_scripts_hash', {'FilterProtocol::check_filters_data'}, 1)
