"""C12 — the stored tip only moves to heavier proven headers with truthful difficulty (DESIGN §5 C12)."""
import re
from engine.rules import Inconclusive
from engine.defuse import DefUse
from engine import layout

EXPLANATION = (
    'All-paths rules over MIR: (r1) every call of Storage::update_last_state outside genesis init is reachable only on the '
    'accepting edge of a strict U256 comparison new > old whose operands derive from the candidate prove state\'s total '
    'difficulty and from Storage::get_last_state; (r2) the three stored values derive from that same prove state and the '
    'stored difficulty is the compared value; (r3) the byte layout written by update_last_state / last_n_headers_value '
    'equals the layout read back by get_last_state / get_last_n_headers / get_cells_capacity (restart reproduces the tip); '
    '(r4) the child fast path is entered only after the child header was verified (PoW + own chain-root commitment), is a '
    'child of the proven header, is strictly heavier, and its parent chain root is tied to the proven parent.')
NOT_DECIDED = 'That the last-N window consists of ancestors of the tip (value clause); behaviour across real restarts.'

SITES = ['LightClientProtocol::update_prove_state_to_child', 'LightClientProtocol::commit_prove_state']
CMP = {'<U256 as PartialOrd>::gt': ('gt'), '<U256 as PartialOrd>::ge': 'ge', '<U256 as PartialOrd>::lt': 'lt', '<U256 as PartialOrd>::le': 'le'}


def run(ctx):
    P = ctx.prog
    ctx.explanation, ctx.not_decided = EXPLANATION, NOT_DECIDED
    ctx.only_callers('C12.r1', 'Storage::update_last_state', set(SITES) | {'Storage::init_genesis_block'}, 3)
    for name in SITES:
        F = ctx.body(name)
        du = DefUse(F)
        sinks = ctx.sites(F, 'Storage::update_last_state', 1)
        cmps = [(b, k, t) for b, k, t in P.call_keys(F) if k in CMP]
        good = None
        for b, k, t in cmps:
            a0_new = du.from_call(t.args[0], lambda kk: kk.endswith('VerifiableHeader::total_difficulty'))
            a0_old = du.from_call(t.args[0], 'Storage::get_last_state')
            a1_new = du.from_call(t.args[1], lambda kk: kk.endswith('VerifiableHeader::total_difficulty'))
            a1_old = du.from_call(t.args[1], 'Storage::get_last_state')
            if not ((a0_new and a1_old) or (a0_old and a1_new)):
                continue
            op = CMP[k]
            # strict "new > old" and the accepting outcome of the call
            if a0_new and not a0_old and a1_old and not a1_new:
                strict = {'gt': 'true', 'le': 'false'}.get(op)
            elif a0_old and not a0_new and a1_new and not a1_old:
                strict = {'lt': 'true', 'ge': 'false'}.get(op)
            else:
                strict = None
            ctx.ob('C12.r1', F.name, 'tip update is decided by a strict comparison new_total_difficulty > stored', strict is not None,
                   at=t.span, operator=op, arg0=('new' if a0_new else 'old'), arg1=('new' if a1_new else 'old'))
            if strict is not None:
                good = (b, strict, t)
        if good is None and not cmps:
            ctx.ob('C12.r1', F.name, 'tip update is decided by a strict comparison new_total_difficulty > stored', False,
                   at=sinks[0][1], detail='no U256 ordering comparison in the function')
            continue
        if good is None:
            continue
        gb, acc, gt = good
        ctx.guard('C12.r1', F, lambda k, t, _t=gt: t is _t, acc, sinks, gname='new_total_difficulty > old_total_difficulty')
        # r2 truthfulness of the stored triple
        for sb, sspan, _ in sinks:
            t = F.blocks[sb].term
            o1 = du.origins(t.args[1], stop_at_calls=False)
            o2 = du.origins(t.args[2], stop_at_calls=False)
            o3 = du.origins(t.args[3], stop_at_calls=False)

            def calls(o):
                return {x[1] for x in o if x[0] == 'call'}
            cmp_new_arg = gt.args[0] if du.from_call(gt.args[0], lambda kk: kk.endswith('VerifiableHeader::total_difficulty')) else gt.args[1]
            same_local = bool(set(re.findall(r'_\d+', ' '.join(map(str, base_locals(du, t.args[1])))))
                              & set(re.findall(r'_\d+', ' '.join(map(str, base_locals(du, cmp_new_arg))))))
            ctx.ob('C12.r2', F.name, 'stored difficulty is the candidate\'s total_difficulty() that was compared',
                   any(k.endswith('VerifiableHeader::total_difficulty') for k in calls(o1)) and 'Storage::get_last_state' not in calls(o1) and same_local,
                   at=sspan)
            ctx.ob('C12.r2', F.name, 'stored header is the candidate prove state\'s last header',
                   'ProveState::get_last_header' in calls(o2) and 'Storage::get_last_state' not in calls(o2), at=sspan)
            ctx.ob('C12.r2', F.name, 'stored last-N headers are the candidate prove state\'s',
                   'ProveState::get_last_headers' in calls(o3), at=sspan)
            params = {x[1] for x in (o1 | o2 | o3) if x[0] == 'param'}
            ctx.ob('C12.r2', F.name, 'all three stored values come from the same prove-state parameter', 3 in params, params=sorted(params))

    # r3 persistence layout
    W = ctx.body('Storage::update_last_state')
    wf = layout.fact_set(W)
    widths = [f[3] for f in wf if f[0] == 'bytes' and f[1] == 'to']
    if len(widths) != 1:
        raise Inconclusive('update_last_state: expected one integer->bytes conversion, got %r' % sorted(map(str, wf)))
    w = widths[0]
    wle = [f for f in wf if f[0] == 'bytes'][0][2]
    R = ctx.body('Storage::get_last_state')
    rf = set()
    for c in [R] + P.closures_of(R):
        rf |= layout.fact_set(c)
    ctx.ob('C12.r3', R.name, 'reader splits LAST_STATE at the written difficulty width', ('range', 0, w) in rf and ('rangefrom', w) in rf
           and ('bytes', 'from', wle, w) in rf, writer_width=w, endian=wle, reader=sorted(map(str, rf)))
    CC = ctx.body('<BlockFilterRpcImpl as BlockFilterRpc>::get_cells_capacity')
    hit = False
    for c in [CC] + P.closures_of(CC):
        if P.const_uses(CC, 'LAST_STATE_KEY') or True:
            if ('rangefrom', w) in layout.fact_set(c):
                hit = True
    ctx.ob('C12.r3', CC.name, 'get_cells_capacity reads the tip header at the written offset', hit and bool(P.const_uses(CC, 'LAST_STATE_KEY')), writer_width=w)
    WN = ctx.body('Storage::last_n_headers_value')
    wn = layout.fact_set(WN)
    nw = [f[3] for f in wn if f[0] == 'bytes' and f[1] == 'to']
    if len(nw) != 1:
        raise Inconclusive('last_n_headers_value: expected one integer->bytes conversion')
    nend = [f for f in wn if f[0] == 'bytes'][0][2]
    rec = nw[0] + 32
    RN = ctx.body('Storage::get_last_n_headers')
    rn = set()
    for c in [RN] + P.closures_of(RN):
        rn |= layout.fact_set(c)
    ctx.ob('C12.r3', RN.name, 'reader record size = number width + 32-byte hash', ('chunks', rec) in rn and ('range', 0, nw[0]) in rn
           and ('rangefrom', nw[0]) in rn and ('bytes', 'from', nend, nw[0]) in rn, record=rec, reader=sorted(map(str, rn)))

    # r4 child fast path
    S = ctx.body('SendLastStateProcess::execute')
    sdu = DefUse(S)
    child = ctx.sites(S, 'LightClientProtocol::update_prove_state_to_child', 1)
    ctx.guard('C12.r4', S, 'LightClientProtocol::check_verifiable_header', 'Ok', child)
    ctx.guard('C12.r4', S, 'ProveState::is_parent_of', 'true', child)
    # the comparison between the peer's previous and new last state (other U256 comparisons of the handler, e.g. with the stored
    # total difficulty, are not this guard)
    lts = [(b, k, t) for b, k, t in P.call_keys(S) if k in CMP
           and not any(o[0] == 'call' and o[1].endswith('Storage::get_last_state') for a in t.args for o in sdu.origins(a, stop_at_calls=False))]
    ctx.floor('C12.r4', 'U256 comparison in SendLastStateProcess::execute', len(lts), 1)
    for b, k, t in lts:
        acc = {'lt': 'true', 'gt': 'true', 'le': 'false', 'ge': 'false'}[CMP[k]]
        ctx.guard('C12.r4', S, lambda kk, tt, _t=t: tt is _t, acc, child, gname='prev.total_difficulty() %s new.total_difficulty()' % CMP[k])
    # parent chain root tied to the proven parent: a comparison guarding the sink whose operands derive from the child's
    # parent_chain_root()/total_difficulty() and from the proven state's last header
    tie = chain_root_tie(ctx, S, sdu, child)
    ctx.ob('C12.r4', S.name, 'child chain root is compared with the proven parent before the fast path', tie, at=child[0][1],
           detail=None if tie else 'nothing binds the child\'s parent_chain_root (hence its total difficulty) to the proven parent header')
    # r5 (F43): the stored total difficulty of a proof is the one the last header's parent chain root commits plus its own
    # difficulty; the chain root is verified as an MMR root only, the difficulties of the proof items are the peer's.  It has
    # to be accumulated from the continuous headers before the last header (each chain root commits the total difficulty of the
    # parent header), for every response, with or without samples.
    E = ctx.body('SendLastStateProofProcess::execute')
    commit = ctx.sites(E, 'LightClientProtocol::commit_prove_state', 1)
    CT = 'LightClientProtocol::check_total_difficulty_for_continuous_headers'
    tds = P.call_sites(E, CT)
    ctx.ob('C12.r5', E.name, 'the total difficulties of the continuous headers are chained (check_total_difficulty_for_continuous_headers)', len(tds) >= 1, calls=len(tds),
           failing_history=None if tds else 'proved state at block 20 (last_n = 5); SendLastState(23\') where 23\' commits a chain root over the real leaves 0..=22 with the '
           'difficulty of an undisclosed leaf raised by 2^200; the proof without samples [20..22] + real MMR proof is accepted and the inflated total difficulty is stored')
    if tds:
        ctx.guard('C12.r5', E, CT, 'Ok', commit, unconditional=False)
        edu = DefUse(E)
        with_last = False
        for bid, t in tds:
            org = edu.origins(t.args[1], stop_at_calls=False)
            if any(o[0] == 'call' and o[1].endswith('Iterator>::chain') for o in org) and any(
                    o[0] == 'call' and (o[1].endswith('SendLastStateProofReader::last_header') or o[1].endswith('last_header')) for o in org):
                with_last = True
        ctx.ob('C12.r5', E.name, 'the chained section ends with the last header itself (last-N headers ++ last header)', with_last)
        wl = [t for bid, t in tds if any(o[0] == 'call' and o[1].endswith('Iterator>::chain') for o in edu.origins(t.args[1], stop_at_calls=False))]
        if wl:
            ctx.guard('C12.r5', E, lambda kk, tt, _w=wl: any(tt is x for x in _w), 'Ok', commit, unconditional=True, gname=CT + ' (last-N ++ last header)')
        # (F79) without samples the reorg section and the last-N section are one continuous chain: the border pair is chained too
        border = [t for bid, t in tds if any(o[0] == 'call' and 'RangeInclusive' in o[1] for o in edu.origins(t.args[1], stop_at_calls=False))]
        ctx.ob('C12.r5', E.name, 'without samples the total difficulty is chained across the reorg / last-N border as well', bool(border),
               failing_history=None if border else 'real headers [15..19] as reorg headers, forged [20..24] and forged last #25 with an inflated total difficulty hidden in an MMR proof item: '
               'accepted, the stored total difficulty jumps to 2^252')
    if not P.has(CT):
        ctx.ob('C12.r5', CT, 'the chaining check exists', False)
        from rules import census_fns
        census_fns.run(ctx, 'C12')
        return
    H = ctx.body(CT)
    hdu = DefUse(H)
    tied = False
    for bid, k, t in P.call_keys(H):
        if k.endswith('PartialEq>::ne') or k.endswith('PartialEq>::eq'):
            o = [hdu.origins(a, stop_at_calls=False) for a in t.args]
            cs = [{x[1] for x in oo if x[0] == 'call'} for oo in o]
            for i in (0, 1):
                if any(c.endswith('parent_chain_root') for c in cs[i]) and any(c.endswith('checked_total_difficulty') for c in cs[1 - i]):
                    acc = 'false' if k.endswith('::ne') else 'true'
                    from engine.flow import GuardFlow
                    gf = GuardFlow(H, P.cfg(H))
                    sinks = ctx.success_sinks(H)
                    # the loop may run zero times (fewer than two headers): the comparison is a per-pair guard
                    tied = bool(sinks) and all(gf.check_sink(bid, acc, sb, False)[0] for sb, _, _ in sinks)
    ctx.ob('C12.r5', H.name, 'Ok only if every chain root commits the (checked) total difficulty of the header before it', tied)
    # r6 (F78, F80): what the stored total difficulty rests on
    from rules import census_fns as _cf
    _cf.requires(ctx, 'C12.r6', 'LightClientProtocol::check_verifiable_header', r'^Ok\(\(\)\)', r'EpochNumberWithFraction::(le|gt|lt|ge)\(HeaderView::epoch|HeaderView::is_genesis',
                 'a last state is accepted only if its header commits a chain root (epoch after the MMR activation, or genesis)',
                 'a new peer announces block #1000 claiming epoch 0 (activation 1): the chain roots of the samples are chosen after the samples are known, a tip with total difficulty 2^250 is stored')
    Eb = ctx.body('SendLastStateProofProcess::execute')
    vt = P.call_sites(Eb, 'verify_tau')
    edu6 = DefUse(Eb)
    chained = [t for b, t in vt if any(o[0] == 'call' and (o[1].endswith('Iterator>::chain') or o[1].endswith('slice::windows')) for a in t.args[:4] for o in edu6.origins(a, stop_at_calls=False))]
    ctx.ob('C12.r6', Eb.name, 'the compact targets of the last-N headers and of the last header are verified pairwise (verify_tau over windows of last-N ++ last header)', bool(chained),
           verify_tau_calls=len(vt),
           failing_history=None if chained else 'proof without samples whose last header has another compact target than its parent in the same epoch (the header the child shortcut refuses): stored')
    if chained:
        ctx.guard('C12.r6', Eb, lambda kk, tt, _c=chained: any(tt is x for x in _c), 'Ok(true)', ctx.sites(Eb, 'LightClientProtocol::commit_prove_state', 1), unconditional=False,
                  gname='verify_tau(pair of last-N ++ last header)')
    # reviewed reference of the checker functions' decision structure (engine/census.py)
    from rules import census_fns
    census_fns.run(ctx, 'C12')


def base_locals(du, operand):
    """set of locals reachable backwards through copies/refs only (no calls)."""
    out = set()
    stack = [int(x) for x in re.findall(r'_(\d+)', operand)]
    while stack:
        l = stack.pop()
        if l in out:
            continue
        out.add(l)
        for kind, bid, obj in du.defs.get(l, []):
            if kind == 'assign' and re.match(r"^(&(mut )?|move |copy )?\(?\*?_\d+\)?$", obj.rhs.strip()):
                stack += [int(x) for x in re.findall(r'_(\d+)', obj.rhs)]
    return {'_%d' % x for x in out}


def chain_root_tie(ctx, S, sdu, child):
    """Looks in S and in the crate-local bool helpers that guard the sink (ProveState::is_parent_of, ...) for a
    comparison between the child's parent_chain_root() data and data of the proven header.  In S itself the
    comparison must guard the sink; in a helper H, S must guard the sink on H()==true (checked by the caller's
    is_parent_of rule) and H may return true only through comparison results (no `const true` return)."""
    P = ctx.prog
    cands = [S]
    for bid, k, t in P.call_keys(S):
        if P.has(k) and k not in ('LightClientProtocol::update_prove_state_to_child',):
            try:
                H = P.body(k)
            except Exception:
                continue
            if H.ret == 'bool':
                cands.append(H)
    for B in cands:
        du = DefUse(B)
        for bid, k, t in P.call_keys(B):
            if not (k.endswith('PartialEq>::eq') or k.endswith('PartialEq>::ne') or k in CMP):
                continue
            if len(t.args) != 2:
                continue
            o = [du.origins(a, stop_at_calls=False) for a in t.args]
            cs = [{x[1] for x in oo if x[0] == 'call'} for oo in o]
            hit = False
            for i in (0, 1):
                if any(c.endswith('parent_chain_root') for c in cs[i]) and any(
                        c.endswith('ProveState::get_last_header') or c.endswith('VerifiableHeader::total_difficulty')
                        for c in cs[1 - i]):
                    hit = True
            if not hit:
                continue
            if B is S:
                acc = 'true' if k.endswith('::eq') else 'false'
                return ctx.guard('C12.r4', S, lambda kk, tt, _t=t: tt is _t, acc, child, gname='child chain root vs proven parent')
            if not (k.endswith('::eq') or k.endswith('::ne')):
                continue
            ctx.fn(B)
            rets = [s_.rhs.strip() for blk in B.blocks.values() if not blk.cleanup for s_ in blk.stmts
                    if s_.kind == 'assign' and s_.lhs.strip() == '_0']
            direct = [tt for _, _, tt in P.call_keys(B) if tt.dest and tt.dest.strip() == '_0']
            no_true = all(r == 'const false' or re.match(r'^(move |copy )?_\d+$', r) for r in rets)
            flows = (t in direct) or any(o_[0] == 'call' and o_[2] == bid for r in rets if r != 'const false'
                                         for o_ in du.origins(r))
            ok = no_true and flows
            if not ok:
                # early-return shape: `if a != b || c != d { return false } ... <more tests>`: every return that
                # is not `const false` is reachable only in worlds where the comparison held
                from engine.flow import GuardFlow
                gf = GuardFlow(B, P.cfg(B))
                acc = 'true' if k.endswith('::eq') else 'false'
                sinks = ctx.success_sinks(B, failure=('false',))
                ok = bool(sinks) and all(gf.check_sink(bid, acc, sb, True)[0] for sb, _, _ in sinks)
            ctx.ob('C12.r4', B.name, 'helper returns true only through the chain-root comparison chain', ok, at=t.span,
                   returns=rets)
            if ok:
                return True
    return False
