"""C10 — no message from a peer can terminate the client (DESIGN §5 C10)."""
import os
import json
import re
from engine.rules import Inconclusive, atxt
from engine import panics, mir
from engine.defuse import DefUse
from rules.C10_table import R as TABLE

EXPLANATION = (
    'Abort-site census over every MIR body reachable from the four CKBProtocolHandler::received entry points (crate-local may-call '
    'graph incl. closures and function items passed as values): checked-arithmetic / bounds / division asserts, explicit panics, '
    'Option/Result unwrap|expect, and a table of may-panic library calls (slice/Vec indexing, U256 operators, '
    'VerifiableHeader::total_difficulty, MMR index helpers, unchecked molecule readers, GCS filter reader ...). Each site must be '
    'discharged by (a) a recognised guard idiom proved with the guard-flow engine (a dominating comparison implying a >= b for a - b, '
    'i < len for indexing, non-emptiness, an equality pinning a peer value to a local one), (b) provenance (no operand derives from '
    'peer-supplied data — type-directed interprocedural taint; lock/IO errors), (c) a decoder of bytes the store wrote itself, or (d) '
    'an entry of the reviewed table whose required dominating facts still hold. Anything else is a violation. Structural rules: '
    'decode discipline (verified reader before to_enum, no new_unchecked on message bytes), and every LastState is built only from a '
    'header that passed checked_total_difficulty().')
NOT_DECIDED = ('Panics inside library code outside the may-panic table; stack/heap exhaustion; whether a recognised comparison is the '
               'semantically right one; secondary entry points (notify/connected) are analysed with the same rules but peer-supplied '
               'state consumed there is covered only through the same table.')

HANDLERS = ['LightClientProtocol', 'FilterProtocol', 'SyncProtocol', 'RelayProtocol']
SECONDARY = ['notify', 'connected', 'disconnected']


def collect(ctx, entry_names):
    P = ctx.prog
    bodies, tops = panics.reachable_bodies(P, entry_names)
    T = panics.Taint(P, bodies)
    Dz = panics.Discharger(P, T)
    return bodies, tops, T, Dz



SITES_REF = os.path.join(os.path.dirname(os.path.abspath(__file__)), 'C10_sites_reference.json')
_EX = {}


def _exits(P, body):
    from engine.exits import Exits
    e = _EX.get(id(body))
    if e is None:
        e = _EX[id(body)] = Exits(P, body)
    return e


def prov_sig(P, s):
    """Name-free signature of an abort site: its kind and, per operand, the leaves (callee keys, constants, parameters, fields,
    arithmetic) of how the operand is computed — the same for `diff - 2` and `start - cached - 2` with `diff` inlined or renamed."""
    from engine import facts
    if not s.operands:
        return None
    X = _exits(P, s.body)
    ops = []
    for o in s.operands:
        try:
            ops.append(sorted(facts.leaves(X.val(o))))
        except RecursionError:
            ops.append(['?'])
    return [s.kind, re.sub(r'\(.*$', '', str(s.sub)) if s.kind == 'libcall' else str(s.sub), ops]


def cmp_sig(P, body, bid, i):
    from engine import facts
    st = body.blocks[bid].stmts[i]
    m = re.match(r'^(Eq|Ne|Lt|Le|Gt|Ge)\((.*), (.*)\)$', st.rhs.strip())
    if not m:
        return None
    X = _exits(P, body)
    a, b = sorted(facts.leaves(X.val(m.group(2)))), sorted(facts.leaves(X.val(m.group(3))))
    op = m.group(1)
    if op in ('Eq', 'Ne'):
        return ['eq', sorted([a, b])[0], sorted([a, b])[1]]
    if op in ('Lt', 'Ge'):
        return ['lt', a, b]
    return ['lt', b, a]


_ARITH = re.compile(r'^(?:Add|Sub|Mul|Div|Rem|Shl|Shr|BitAnd|BitOr|BitXor|Not|Neg|Ord::(?:min|max)|\w+::(?:saturating|checked|wrapping|overflowing)_\w+|\w+::(?:pow|abs_diff))$')


def _loose_sim(a, b):
    """Two operand leaf sets identify the same operand of a reviewed abort site.  Looser than the census criterion (facts._sim):
    the entry's `requires` facts decide whether the site is still guarded, this only decides WHICH reviewed site it is.  Same
    arithmetic operators; the same constants when an operand is nothing but constants; named leaves of one contained in the
    other's (how an Option was unwrapped -- `then_some`, `filter(|x| x == y)` -- adds plumbing leaves); parameters by name."""
    from engine import facts
    if facts._sim(frozenset(a), frozenset(b)):
        return True
    a, b = set(a) - {'c?'}, set(b) - {'c?'}
    aa, ao, an = facts._classes(a)
    ba, bo, bn = facts._classes(b)
    if {x for x in ao if _ARITH.match(x)} != {x for x in bo if _ARITH.match(x)}:
        return False
    if not an and not bn and not aa and not ba:
        return ao == bo
    if bool(an) != bool(bn) or (an and not (an <= bn or bn <= an)):
        return False
    pa, pb = {x.split('*')[0] for x in aa}, {x.split('*')[0] for x in ba}
    return pa <= pb or pb <= pa


def _sig_sim(x, y):
    if x is None or y is None or x[0] != y[0] or x[1] != y[1] or len(x[2]) != len(y[2]):
        return False
    return all(_loose_sim(a, b) for a, b in zip(x[2], y[2]))


def _cmp_sim(x, y):
    if x is None or y is None or x[0] != y[0]:
        return False
    f = _loose_sim
    return (f(x[1], y[1]) and f(x[2], y[2])) or (x[0] == 'eq' and f(x[1], y[2]) and f(x[2], y[1]))


_SWAP = {'Lt': 'Gt', 'Gt': 'Lt', 'Le': 'Ge', 'Ge': 'Le', 'Eq': 'Eq', 'Ne': 'Ne'}


def _same_cmp(op, a, b, val):
    """`val` is the reviewed fact `Op(x, y)`; the same comparison written with swapped operands (`y Op' x`) is the same fact."""
    return '%s(%s, %s)' % (op, a, b) == val or (op in _SWAP and '%s(%s, %s)' % (_SWAP[op], b, a) == val)


def requires_hold(ctx, Dz, s, requires, cmp_sigs=None, found=None):
    """every required fact dominates the site block"""
    P = ctx.prog
    body = s.body
    cfg = P.cfg(body)
    missing = []
    for r in requires:
        kind, _, val = r.partition(':')
        ok = False
        # facts may live in the lexical parent when the site is in a closure
        cands = [(body, s.bid)]
        par = body
        depth = 0
        while '::{closure#' in par.name and depth < 4:
            from engine.locks import Locks
            L = Locks(P)
            pp = L._lexical_parent(par)
            if pp is None:
                break
            site = L._closure_construction(pp, par)
            if site is None:
                break
            cands.append((pp, site))
            par = pp
            depth += 1
        if kind == 'operand':
            # an operand of the aborting call itself derives from a call of `val` (e.g. the length compared by an assert_eq! is the
            # length of the de-duplicated set, not of the list it was built from)
            from engine.defuse import DefUse
            t = body.blocks[s.bid].term
            du_ = DefUse(body)
            ok = t.kind == 'call' and any(o[0] == 'call' and o[1].endswith(val) for a in t.args for o in du_.origins(a, stop_at_calls=True))
            if not ok:
                missing.append(r)
            continue
        for b, blk in cands:
            c = P.cfg(b)
            gf = Dz.gf(b)
            if kind == 'call' and val.endswith('is_empty'):
                # `x.is_empty()` may be written `x.len() == 0` / `0 == x.len()` / `x.len() != 0`: the comparison of a length with 0
                # counts as the emptiness test
                for (bid, i, op, a, bb) in Dz.cmps(b):
                    if (op in ('Eq', 'Ne') and ((a.endswith('.len()') and bb == '0_usize') or (bb.endswith('.len()') and a == '0_usize'))) \
                            or (op in ('Gt', 'Le') and a.endswith('.len()') and bb == '0_usize') or (op in ('Lt', 'Ge') and bb.endswith('.len()') and a == '0_usize'):
                        if c.dominates(bid, blk):
                            ok = True
                            break
                        for acc in ('true', 'false'):
                            good, _ = gf.check_sink((bid, i), acc, blk, unconditional=True)
                            if good:
                                ok = True
                                break
                    if ok:
                        break
            if kind == 'call' and not ok:
                for bid, k, t in P.call_keys(b):
                    if not (k.endswith(val) or val in k):
                        continue
                    if c.dominates(bid, blk):
                        ok = True
                        break
                    # short-circuit chains lower to flag locals: accept if the site is unreachable unless the call ran
                    # and returned one particular outcome
                    for acc in ('true', 'false', 'Ok', 'Some', 'None'):
                        try:
                            good, _ = gf.check_sink(bid, acc, blk, unconditional=True)
                        except Exception:
                            good = False
                        if good:
                            ok = True
                            break
                    if ok:
                        break
                # a call inside the closures created before the site also counts for checked_* helpers
                if not ok and val in ('checked_mul', 'VerifiableHeaderPatch>::checked_total_difficulty', '<u64 as From>::from'):
                    for cl in P.closures_of(b):
                        if any(k.endswith(val) or val in k for _, k, _ in P.call_keys(cl)):
                            ok = True
            elif kind == 'cmp':
                for (bid, i, op, a, bb) in Dz.cmps(b):
                    if cmp_sigs is not None:
                        if not _cmp_sim(cmp_sig(P, b, bid, i), cmp_sigs.get(r)):
                            continue
                    elif not _same_cmp(op, a, bb, val):
                        continue
                    if found is not None and r not in found:
                        found[r] = cmp_sig(P, b, bid, i)
                    if c.dominates(bid, blk):
                        ok = True
                        break
                    for acc in ('true', 'false'):
                        good, _ = gf.check_sink((bid, i), acc, blk, unconditional=True)
                        if good:
                            ok = True
                            break
                    if ok:
                        break
            if ok:
                break
        if not ok:
            missing.append(r)
    return missing


_GEN = {} if os.environ.get('VERIF_C10_GEN') else None
try:
    _SITES_REF = json.load(open(SITES_REF)) if _GEN is None and os.path.exists(SITES_REF) else {}
except ValueError:
    _SITES_REF = {}


def decide_sites(ctx, rule, sites, Dz, all_wire=False):
    P = ctx.prog
    counts = {'idiom': 0, 'provenance': 0, 'decoder': 0, 'table': 0, 'violation': 0}
    used_entries = set()
    for s in sites:
        top = P.parent_fn(s.body).name
        r = Dz.auto(s)
        if r:
            kind = 'provenance' if ('no operand derives' in r or 'lock poisoning' in r or 'operands are lengths' in r) else 'idiom'
            counts[kind] += 1
            ctx.ob(rule, s.body.name, s.desc, True, at=s.span, discharge=kind, why=r)
            continue
        if top in panics.STORE_DECODERS and not all_wire:
            counts['decoder'] += 1
            ctx.ob(rule, s.body.name, s.desc, True, at=s.span, discharge='store-decoder', why=panics.STORE_DECODERS[top])
            continue
        hit = None
        miss = None
        for i, (fn, rx, why, req) in enumerate(TABLE):
            if (fn == s.body.name or ('{closure#' not in fn and P.parent_fn(s.body).name == fn)) and re.search(rx, s.desc):
                m = requires_hold(ctx, Dz, s, req)
                if not m:
                    hit = (i, why)
                    break
                miss = m
        if hit:
            used_entries.add(hit[0])
            counts['table'] += 1
            ctx.ob(rule, s.body.name, s.desc, True, at=s.span, discharge='reviewed-table', why=hit[1])
            if _GEN is not None:
                fnd = {}
                requires_hold(ctx, Dz, s, TABLE[hit[0]][3], found=fnd)
                _GEN.setdefault(top, []).append({'sig': prov_sig(P, s), 'rx': TABLE[hit[0]][1], 'fn': TABLE[hit[0]][0], 'cmp': fnd})
            continue
        if True:
            # no entry matches the descriptor (or the facts its entry requires are written with names that changed) (it is written in source variable names): the same site after a rename / an inlined or
            # extracted intermediate variable has the same provenance signature as a reviewed site of this function; its entry
            # applies if the facts it requires still guard the site (comparisons identified by provenance as well)
            sg = prov_sig(P, s)
            for ent in (_SITES_REF.get(top, []) if sg else []):
                if not _sig_sim(sg, ent['sig']):
                    continue
                if not (ent['fn'] == s.body.name or ('{closure#' not in ent['fn'] and top == ent['fn'])
                        or ('{closure#' in ent['fn'] and '{closure#' in s.body.name and ent['fn'].split('::{closure#')[0] == top)):
                    continue                      # an entry written for a closure (its parameter is the operand) is not one for the parent;
                                                  # it is one for the same closure under another ordinal (closures moved / a helper's closures re-attached)
                idx = next((i for i, e in enumerate(TABLE) if e[0] == ent['fn'] and e[1] == ent['rx']), None)
                if idx is None:
                    continue
                if not requires_hold(ctx, Dz, s, TABLE[idx][3], cmp_sigs=ent.get('cmp') or {}):
                    hit = (idx, TABLE[idx][2])
                    break
            if hit:
                used_entries.add(hit[0])
                counts['table'] += 1
                ctx.ob(rule, s.body.name, s.desc, True, at=s.span, discharge='reviewed-table (site identified by provenance)', why=hit[1])
                continue
        counts['violation'] += 1
        ctx.ob(rule, s.body.name, s.desc, False, at=s.span, kind=s.kind, precondition=s.precond,
               missing_required_facts=miss,
               detail='abort-capable site on a message path with no recognised guard, no reviewed entry' + (' (a fact required by its reviewed entry no longer dominates it)' if miss else ''))
    return counts, used_entries


def run(ctx):
    P = ctx.prog
    ctx.explanation, ctx.not_decided = EXPLANATION, NOT_DECIDED
    # release profile keeps overflow checks: overflow sites are abort sites
    cargo = open(os.path.join(P.repo, 'Cargo.toml')).read()
    m = re.search(r'\[profile\.release\](.*?)(\n\[|\Z)', cargo, flags=re.S)
    oc = bool(m and re.search(r'overflow-checks\s*=\s*true', m.group(1)))
    ctx.ob('C10.cfg', 'Cargo.toml', 'release profile has overflow-checks = true (arithmetic overflow sites are abort sites)', True, present=oc)
    if not oc:
        ctx.note('overflow-checks is not enabled in the release profile: overflow asserts are wrap-arounds there; they are still analysed (debug builds abort)')

    entries = ['<%s as CKBProtocolHandler>::received' % h for h in HANDLERS]
    for e in entries:
        ctx.body(e + '::{closure#0}')
    bodies, tops, T, Dz = collect(ctx, entries)
    ctx.floor('C10.site', 'bodies reachable from the four received() handlers', len(bodies), 250)
    for b in bodies:
        ctx.functions.add(b.name)
    sites = []
    for b in bodies:
        sites += panics.census(P, b)
    ctx.floor('C10.site', 'abort-capable sites on handler paths', len(sites), 300)
    counts, used = decide_sites(ctx, 'C10.site', sites, Dz)
    ctx.note('received(): %d sites: %s' % (len(sites), counts))

    # secondary entries
    sec_entries = ['<%s as CKBProtocolHandler>::%s' % (h, f) for h in HANDLERS for f in SECONDARY if P.has('<%s as CKBProtocolHandler>::%s' % (h, f))]
    b2, t2, T2, Dz2 = collect(ctx, sec_entries)
    seen = {id(b) for b in bodies}
    extra = [b for b in b2 if id(b) not in seen]
    s2 = []
    for b in extra:
        s2 += panics.census(P, b)
    c2, used2 = decide_sites(ctx, 'C10.site2', s2, Dz2)
    ctx.note('notify/connected/disconnected (bodies not already covered): %d sites: %s' % (len(s2), c2))
    stale = [TABLE[i][:2] for i in range(len(TABLE)) if i not in used and i not in used2]
    ctx.note('reviewed-table entries not matched on this tree: %d' % len(stale))

    decode_discipline(ctx)
    total_difficulty_invariant(ctx)
    shape_rule(ctx)
    if _GEN is not None:
        json.dump(_GEN, open(SITES_REF, 'w'), indent=0, sort_keys=True)
        ctx.note('C10 site reference regenerated: %d functions' % len(_GEN))


def decode_discipline(ctx):
    P = ctx.prog
    for h in HANDLERS:
        R = ctx.body('<%s as CKBProtocolHandler>::received::{closure#0}' % h)
        enums = [(b, t.span, 'to_enum') for b, t in P.call_sites(R, lambda k, t: k.endswith('Reader::to_enum'))]
        ctx.floor('C10.decode', 'to_enum in %s::received' % h, len(enums), 1)
        ctx.guard('C10.decode', R, lambda k, t: (k.endswith('from_slice') or k.endswith('from_compatible_slice')) and 'MessageReader' in t.callee, 'Ok', enums,
                  gname='MessageReader::from_slice / from_compatible_slice')
        bans = P.call_sites(R, lambda k, t: k.endswith('CKBProtocolContext>::ban_peer'))
        ctx.ob('C10.decode', R.name, 'a malformed message bans the peer', len(bans) >= 1)
    n = 0
    for b in P.bodies:
        if b.promoted is not None or not b.file.startswith('src/'):
            continue
        for bid, k, t in P.call_keys(b):
            if k.endswith('::new_unchecked') and 'Reader' in k:
                n += 1
                ctx.ob('C10.decode', b.name, 'no molecule reader is created with new_unchecked from message bytes', False, at=t.span, callee=k)
    ctx.ob('C10.decode', '<crate>', 'unchecked molecule readers in non-test code', n == 0, count=n)


def total_difficulty_invariant(ctx):
    """C10.td: every LastState::new(header) is dominated by an accepted total-difficulty check of that header:
    check_verifiable_header(..) == Ok in the same function, or checked_total_difficulty(..) tested, or the header comes from an
    existing LastState/ProveState (clone)."""
    P = ctx.prog
    n = 0
    for b in P.bodies:
        if b.promoted is not None or not b.file.startswith('src/') or '/tests/' in b.file:
            continue
        sites = P.call_sites(b, 'LastState::new')
        if not sites:
            continue
        ctx.fn(b)
        du = DefUse(b)
        cfg = P.cfg(b)
        for bid, t in sites:
            n += 1
            org = du.origins(t.args[0], stop_at_calls=False)
            calls = {o[1] for o in org if o[0] == 'call'}
            from_state = any(k in ('ProveState::get_last_header', 'ProveRequest::get_last_header') or k.endswith('LastState as AsRef>::as_ref') for k in calls)
            chk = [x for x in P.call_sites(b, lambda k, tt: k == 'LightClientProtocol::check_verifiable_header' or k.endswith('checked_total_difficulty'))
                   if cfg.dominates(x[0], bid)]
            param_only = all(o[0] in ('param', 'agg', 'const') or (o[0] == 'call' and o[1].endswith('clone')) for o in org)
            caller_checked = False
            if not chk and not from_state:
                # one level up: every caller passes a header it checked
                callers = [c for c in P.callers_of(P.parent_fn(b).name)]
                oks = []
                for cn in callers:
                    for cb in P.by_name.get(cn, []):
                        for cbid, ct in P.call_sites(cb, P.parent_fn(b).name):
                            ccfg = P.cfg(cb)
                            oks.append(any(ccfg.dominates(x[0], cbid) for x in P.call_sites(cb, lambda k, tt: k == 'LightClientProtocol::check_verifiable_header' or k.endswith('checked_total_difficulty'))))
                caller_checked = bool(oks) and all(oks)
            ctx.ob('C10.td', b.name, 'LastState::new is applied only to a header whose total difficulty was checked', bool(chk) or from_state or caller_checked, at=t.span,
                   checked_here=len(chk), from_existing_state=from_state, checked_by_all_callers=caller_checked)
    ctx.floor('C10.td', 'LastState::new call sites', n, 4)
    # check_verifiable_header really includes the total difficulty check
    H = ctx.body('LightClientProtocol::check_verifiable_header')
    ctx.guard('C10.td', H, lambda k, t: k.endswith('checked_total_difficulty'), 'Some', ctx.success_sinks(H), gname='checked_total_difficulty',
              which=None) if False else None
    cs = P.call_sites(H, lambda k, t: k.endswith('checked_total_difficulty'))
    ctx.ob('C10.td', H.name, 'check_verifiable_header tests checked_total_difficulty()', len(cs) >= 1)
    if cs:
        isn = P.call_sites(H, lambda k, t: k.endswith('Option::is_none') or k.endswith('Option::is_some'))
        if isn:
            acc = 'false' if isn[0][1].callee.endswith('is_none') else 'true'
            ctx.guard('C10.td', H, lambda k, t, _t=isn[0][1]: t is _t, acc, ctx.success_sinks(H), gname='checked_total_difficulty().is_none()')


def shape_rule(ctx):
    """C10.shape: a response whose headers are all reorg headers (empty last-N section) is rejected whenever the request has
    start_number < last_number (always true for requests the client builds).  Structure: the comparison of start_number with
    last_number is evaluated exactly in the worlds where last_n_count == 0, and Ok is unreachable when it says start < last."""
    P = ctx.prog
    F = ctx.body('check_if_response_is_matched')
    Dz = panics.Discharger(P)
    succ = ctx.success_sinks(F)
    ctx.floor('C10.shape', 'Ok returns of check_if_response_is_matched', len(succ), 1)
    gf = Dz.gf(F)
    zero = []
    for (bid, i, op, a, b) in Dz.cmps(F):
        if (a, b) == ('last_n_count', '0_usize') and op in ('Eq', 'Ne', 'Gt'):
            zero.append((bid, i, {'Eq': 'true', 'Ne': 'false', 'Gt': 'false'}[op]))   # outcome meaning "is zero"
    rel = []
    for (bid, i, op, a, b) in Dz.cmps(F):
        if (a, b) == ('start_number', 'last_number') and op in ('Lt', 'Ge'):
            rel.append((bid, i, {'Lt': 'false', 'Ge': 'true'}[op]))                   # outcome allowing Ok
        if (a, b) == ('last_number', 'start_number') and op in ('Gt', 'Le'):
            rel.append((bid, i, {'Gt': 'false', 'Le': 'true'}[op]))
    ok = False
    for rb, ri, racc in rel:
        # Ok only when the relation says start >= last (in the worlds where it was evaluated)
        good = all(gf.check_sink((rb, ri), racc, sb, unconditional=False)[0] for sb, _, _ in succ)
        # ... and it is evaluated in every world where last_n_count == 0: from the "is zero" edge of a last_n_count test,
        # every Ok passes this relation test (Ok unreachable from that edge when the relation block is removed)
        covered = False
        for zb, zi, zacc in zero:
            r1 = all(gf.check_sink((zb, zi), {'true': 'false', 'false': 'true'}[zacc], sb, unconditional=False, removed={rb})[0] for sb, _, _ in succ)
            if r1:
                covered = True
        if good and covered:
            ok = True
    ctx.ob('C10.shape', F.name, 'a response with an empty last-N section is rejected when start_number < last_number', ok, at=succ[0][1],
           tests_on_last_n_count=len(zero), tests_on_start_vs_last=len(rel),
           detail=None if ok else 'Ok((reorg, 0, 0)) is returned for a reorg-only response; execute then slices headers[(reorg_count-1)..=reorg_count] out of bounds '
           'when the peer has no previous prove state, and otherwise commits a prove state without any header in [start_number, last_number)')
