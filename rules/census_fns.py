"""Functions whose decision structure / value expressions are held against the reviewed reference (rules/census_table.json),
per property.  '+' = also record writes through &mut parameters (state effects)."""
CENSUS = {
    'C01': ['check_if_response_is_matched', 'check_continuous_headers', 'verify_mmr_proof',
            '<HeaderView as HeaderUtils>::is_parent_of', '<VerifiableHeader as VerifiableHeaderPatch>::patched_is_valid',
            '<VerifiableHeader as VerifiableHeaderPatch>::checked_total_difficulty',
            'LightClientProtocol::check_pow_for_headers', 'LightClientProtocol::check_chain_root_for_headers',
            'LightClientProtocol::check_verifiable_header', 'ProveRequest::is_same_as', 'LastState::is_same_as'],
    'C02': ['check_block_body', 'verify_extra_hash'],
    'C06': ['Peers::calc_check_point_number', 'Peers::calc_cached_check_point_index_when_sync_at',
            '+LatestBlockFilterHashes::update_latest_block_filter_hashes', 'Peers::get_latest_block_filter_hashes',
            'LatestBlockFilterHashes::get_last_number'],
    'C07': ['+CheckPoints::add_check_points', '+CheckPoints::remove_first_n_check_points', 'CheckPoints::number_of_first_check_point',
            'CheckPoints::number_of_last_check_point', 'CheckPoints::number_of_next_check_point', 'CheckPoints::if_require_next_check_point',
            'Peers::required_peers_count'],
    'C12': ['ProveState::is_parent_of', 'check_last_state', 'ProveState::new_child', 'ProveState::is_same_as'],
    'C14': ['verify_tau', 'verify_total_difficulty'],
    'C15': ['sample_blocks', 'estimate_k', 'estimate_samples_count', 'multiply', 'FlyClientPDF::gen_x', 'FlyClientPDF::random_sample',
            'FlyClientPDF::sampling', 'LightClientProtocol::build_prove_request_content',
            'LightClientProtocol::build_prove_request_content_from_genesis'],
}


def run(ctx, pid):
    from engine import census
    for f in CENSUS.get(pid, []):
        census.check(ctx, pid + '.ref', f.lstrip('+'))
