"""Functions whose decision structure / value expressions are held against the reviewed reference (rules/census_table.json),
per property.  '+' = also record writes through &mut parameters (state effects)."""
# durable-write primitives recorded as effects ('@' + this pattern after a function name)
S = '@^(Batch::(put|put_kv|delete|commit)|<DB as (Put|Delete)>::(put|delete))$'
# interior-mutability containers of Peers: their mutating calls are effects
D = '@^(DashMap|Entry|OccupiedEntry|VacantEntry)::(insert|remove|entry|alter|clear|retain|and_modify|or_insert_with|or_insert|or_default)$'
CENSUS = {
    'C03': ['Storage::rollback_to_block' + S, 'Storage::filter_block' + S, 'Storage::update_block_number' + S,
            'Storage::update_filter_scripts' + S[:-2] + '|Storage::clear_matched_blocks|Storage::filter_block)$'],
    'C04': ['Storage::rollback_to_block' + S, 'Storage::filter_block' + S],   # filter_block: the script set it indexes for must agree with the
                                                                                # progress rollback_to_block records (seeded C04-5)
    'C08': ['Storage::init_genesis_block' + S[:-2] + '|Storage::filter_block|Storage::update_last_state)$', 'Storage::update_last_state' + S, 'Storage::add_matched_blocks' + S, 'Storage::remove_matched_blocks' + S, 'Storage::update_min_filtered_block_number' + S],
    'C09': ['!<BlockFilterRpcImpl as BlockFilterRpc>::set_scripts@^(Storage::update_filter_scripts|HashMap::clear)$', 'Storage::update_filter_scripts' + S[:-2] + '|Storage::clear_matched_blocks|Storage::filter_block)$', 'Storage::clear_matched_blocks' + S],
    'C11': ['!LightClientProtocol::process_last_state@^Peers::update_last_state$', '~Peers::get_peers_which_have_timeout', '~Peers::get_peers_which_require_new_state', '~Peers::get_peers_which_require_new_proof',
            '~Peers::get_peers_which_require_more_check_points', '~Peers::get_peers_which_require_more_latest_block_filter_hashes',
            '~Peers::get_all_proved_check_points', '~Peers::get_all_prove_states', '~Peers::find_if_a_header_is_proved',
            '~Peers::find_header_in_proved_state', '~Peers::get_best_proved_peers',
            '~+Peers::mark_fetching_headers_timeout', '~+Peers::mark_fetching_txs_timeout'],
    'C16': ['Storage::add_fetched_header' + S, 'Storage::add_fetched_tx' + S, '<ChainRpcImpl as ChainRpc>::fetch_header',
            '<TransactionRpcImpl as TransactionRpc>::fetch_transaction', 'Storage::get_transaction_with_header',
            '~+Peers::mark_fetching_headers_missing', '~+Peers::mark_fetching_txs_missing', '~+Peers::mark_fetching_headers_timeout',
            '~+Peers::mark_fetching_txs_timeout', '~+Peers::fetching_idle_headers', '~+Peers::fetching_idle_txs',
            '~Peers::get_headers_to_fetch', '~Peers::get_txs_to_fetch', '~+Peers::add_fetch_header' + D, '~+Peers::add_fetch_tx' + D,
            '+FetchInfo::new_add', '~+Peers::remove_fetching_header' + D, '~+Peers::remove_fetching_transaction' + D],
    'C18': ['+PendingTxs::push', '~+PendingTxs::fetch_transaction_hashes_for_broadcast', '<ChainRpcImpl as ChainRpc>::estimate_cycles',
            'verify_tx', '~resolve_tx', 'ContextualTransactionVerifier::verify',
            '<Storage as CellProvider>::cell', 'CompatibleVerifier::verify', '<StorageWithChainData as HeaderProvider>::get_header'],
    'C01': ['check_if_response_is_matched', 'check_continuous_headers', 'verify_mmr_proof',
            '<HeaderView as HeaderUtils>::is_parent_of', '<VerifiableHeader as VerifiableHeaderPatch>::patched_is_valid',
            '<VerifiableHeader as VerifiableHeaderPatch>::checked_total_difficulty',
            'LightClientProtocol::check_pow_for_headers', 'LightClientProtocol::check_chain_root_for_headers',
            'LightClientProtocol::check_verifiable_header', 'ProveRequest::is_same_as', 'LastState::is_same_as',
            'LightClientProtocol::check_total_difficulty_for_continuous_headers'],
    'C02': ['strict_merkle_proof_root', 'verify_mmr_proof', 'check_block_body', 'verify_extra_hash', '~+Peers::add_block', '~TransactionsProofRequest::check_tx_hashes', '~BlocksProofRequest::check_block_hashes'],
    'C06': ['Peers::calc_check_point_number', 'Peers::calc_cached_check_point_index_when_sync_at',
            '+LatestBlockFilterHashes::update_latest_block_filter_hashes', '~+Peers::get_latest_block_filter_hashes',
            'LatestBlockFilterHashes::get_last_number'],
    'C07': ['+CheckPoints::add_check_points', '+CheckPoints::remove_first_n_check_points', 'CheckPoints::number_of_first_check_point',
            'CheckPoints::number_of_last_check_point', 'CheckPoints::number_of_next_check_point', 'CheckPoints::if_require_next_check_point',
            'Peers::required_peers_count', 'Storage::update_check_points' + S, 'Storage::update_max_check_point_index' + S],
    'C12': ['LightClientProtocol::check_total_difficulty_for_continuous_headers', 'ProveState::is_parent_of', 'check_last_state', 'ProveState::new_child', 'ProveState::is_same_as',
            'Storage::update_last_state' + S, 'Storage::last_n_headers_value'],
    'C13': ['entry_cell_script_starts_with', '~<BlockFilterRpcImpl as BlockFilterRpc>::get_cells', '~<BlockFilterRpcImpl as BlockFilterRpc>::get_cells_capacity',
            '~<BlockFilterRpcImpl as BlockFilterRpc>::get_transactions'],
    'C14': ['verify_tau', 'verify_total_difficulty'],
    'C15': ['+sample_blocks', 'estimate_k', 'estimate_samples_count', 'multiply', 'FlyClientPDF::gen_x', 'FlyClientPDF::random_sample',
            '+FlyClientPDF::sampling', '+LightClientProtocol::build_prove_request_content',
            '+LightClientProtocol::build_prove_request_content_from_genesis'],
}

# handlers: only the guards (and argument provenance) of their state-changing calls are held to the reference ('!')
HANDLERS = {
    'C01': ['!SendLastStateProofProcess::execute@^LightClientProtocol::(commit_prove_state|process_last_state|get_last_state_proof)$'],
    'C02': ['!SendBlocksProofProcess::execute_internally@^(Storage::(add_fetched_header|remove_matched_blocks|update_min_filtered_block_number)|HashMap::clear|Peers::(mark_matched_blocks_proved|update_blocks_request|mark_fetching_headers_missing|remove_fetching_header))$',
            '!SendTransactionsProofProcess::execute_internally@^(Storage::add_fetched_tx|Peers::(mark_fetching_txs_missing|remove_fetching_transaction))$',
            '!<SyncProtocol as CKBProtocolHandler>::received::{closure#0}@^(Peers::(add_block|clear_matched_blocks)|Storage::(filter_block|update_block_number|remove_matched_blocks|update_min_filtered_block_number))$'],
    'C06': ['!BlockFiltersProcess::execute@^(Storage::(add_matched_blocks|update_block_number)|FilterProtocol::update_min_filtered_block_number|Peers::add_matched_blocks)$',
            '!BlockFilterHashesProcess::execute@^Peers::(update_latest_block_filter_hashes|update_cached_block_filter_hashes)$',
            '!BlockFilterCheckPointsProcess::execute@^Peers::add_check_points$'],
    'C07': ['!LightClientProtocol::finalize_check_points@^(Storage::(update_check_points|update_max_check_point_index)|Peers::remove_first_n_check_points)$'],
    'C12': ['!SendLastStateProcess::execute@^(LightClientProtocol::(update_prove_state_to_child|get_last_state_proof)|Peers::update_last_state)$',
            '!LightClientProtocol::commit_prove_state@^(Storage::(update_last_state|rollback_to_block|add_matched_blocks|remove_matched_blocks)|Peers::update_prove_state)$',
            '!LightClientProtocol::update_prove_state_to_child@^(Storage::update_last_state|Peers::update_prove_state)$'],
    'C18': ['!<TransactionRpcImpl as TransactionRpc>::send_transaction@^PendingTxs::push$'],
}
# the same handler entries are also necessary conditions of other properties (the table is keyed by function)
HANDLERS['C03'] = [HANDLERS['C06'][0], HANDLERS['C02'][2], HANDLERS['C12'][1], HANDLERS['C02'][0]]   # + commit_prove_state (F76), SendBlocksProof (F74)
HANDLERS['C02'] = HANDLERS['C02'] + [HANDLERS['C12'][1]]   # commit_prove_state: the kept matched-blocks record (F42)
HANDLERS['C04'] = [HANDLERS['C01'][0], HANDLERS['C12'][1], HANDLERS['C02'][0]]   # SendBlocksProof: missing matched block (F54)
HANDLERS['C06'] = HANDLERS['C06'] + [HANDLERS['C02'][2], HANDLERS['C02'][0]]   # + SendBlocksProof (F67)
CENSUS.setdefault('C06', []).append('~+Peers::add_block')
HANDLERS['C12'] = HANDLERS['C12'] + [HANDLERS['C01'][0]]
CENSUS['C12'].append(HANDLERS['C01'][0])
# a last state is trusted with the total difficulty its chain root commits: the checks that tie the chain root to the header
# (seeded C12-4: the epoch test of check_verifiable_header disagreed with patched_is_valid at the activation boundary)
CENSUS['C12'].extend(['LightClientProtocol::check_verifiable_header', '<VerifiableHeader as VerifiableHeaderPatch>::patched_is_valid',
                      '<VerifiableHeader as VerifiableHeaderPatch>::checked_total_difficulty'])
HANDLERS['C16'] = [HANDLERS['C02'][0], HANDLERS['C02'][1], '!LightClientProtocol::fetch_headers_txs@^Peers::(fetching_idle_txs|fetching_idle_headers|update_blocks_proof_request|update_txs_proof_request)$']
CENSUS['C16'].extend(HANDLERS['C16'])
# a fetch is released when its serving peer times out: the timeout scan is a necessary condition of C16 too (seeded C16-5)
CENSUS['C16'].append('~Peers::get_peers_which_have_timeout')
CENSUS['C16'].extend(['strict_merkle_proof_root', '~TransactionsProofRequest::check_tx_hashes', '~BlocksProofRequest::check_block_hashes'])
HANDLERS['C09'] = [HANDLERS['C02'][2], HANDLERS['C06'][0]]
HANDLERS['C08'] = [HANDLERS['C12'][1], HANDLERS['C02'][2], HANDLERS['C06'][0], HANDLERS['C07'][0]]
for _k in ('C08', 'C09'):
    CENSUS.setdefault(_k, []).extend(HANDLERS[_k])
for _k, _v in HANDLERS.items():
    CENSUS.setdefault(_k, []).extend(_v)


# results built by mutation (loops pushing into a Vec, closures given to iterator adaptors) are invisible in the return
# expression: every non-handler entry is censused with the exits of its closures ('~') and its pointer / container writes ('+')
for _k, _v in CENSUS.items():
    CENSUS[_k] = [f if f.startswith('!') else ('~+' + f.lstrip('+~')) for f in _v]


def run(ctx, pid):
    from engine import census
    ctx._ref_done = True
    for f in CENSUS.get(pid, []):
        census.check(ctx, pid + '.ref', f.lstrip('+~!').split('@')[0])


def requires(ctx, rule, name, sink_pat, atom_pat, text, history=None, forbid=False, some=False):
    """Explicit obligation on top of the reference: every effect / exit of `name` whose label matches `sink_pat` is control
    dependent on a condition matching `atom_pat` (or, with forbid, on none).  Uses the options of the function's table entry."""
    import re as _re
    from engine import census
    table = census.load_table()
    ent = table.get(name, {})
    if not ctx.prog.has(name):
        ctx.ob(rule, name, text, False, problem='function not found')
        return
    act, _ = census.compute(ctx.prog, name, tuple(ent.get('opaque', ())), bool(ent.get('effects')), ent.get('sinks'), bool(ent.get('closures')), bool(ent.get('guarded')))
    hits = [e for e in act if _re.search(sink_pat, e['label'])]
    if not hits:
        ctx.ob(rule, name, text, False, problem='no effect / exit matching %s' % sink_pat, failing_history=history)
        return
    if some:       # at least one exit / effect with this label is triggered by the condition (the label has several causes)
        ok = any(any(_re.search(atom_pat, a) for a in e.get('trigger', [])) for e in hits)
    else:
        ok = all(any(_re.search(atom_pat, a) for a in e['full']) != forbid for e in hits)
    ctx.ob(rule, name, text, ok, effects=len(hits), failing_history=None if ok else history)
