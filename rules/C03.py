"""C03 — script index equals the chain (partial; DESIGN §5 C03)."""
import re
from engine.rules import Inconclusive
from engine.defuse import DefUse
from engine import layout, mir

EXPLANATION = (
    'Structural necessary conditions decided over MIR: (r1) sentinel overwrite — a TxHash record written with a constant tx_index '
    '(the u32::MAX placeholder of fetched transactions) must be conditional on a lookup of the existing record, because filter_block '
    'and rollback_to_block read tx_index back from that record to address cell keys; (r2) matched blocks are indexed in block-number '
    'order: clear_matched_blocks sorts by header number before returning, and the filter_block loop iterates exactly that vector; '
    '(r3) every reader of index keys / stored transactions slices them at the offsets the writer (append_key, Value::Transaction) '
    'produces; (r4) only the synchronizer and set_scripts(genesis) index blocks, only the synchronizer and the filter process raise '
    'script block numbers.')
NOT_DECIDED = 'The main clause — index == chain over all histories, script sets and interleavings — is a value clause and is not decided.'

RECV = '<SyncProtocol as CKBProtocolHandler>::received'


def run(ctx):
    P = ctx.prog
    ctx.explanation, ctx.not_decided = EXPLANATION, NOT_DECIDED

    # r1 sentinel overwrite ---------------------------------------------------------------
    nsent = 0
    for b in P.bodies:
        if b.promoted is not None or not b.file.startswith('src/'):
            continue
        du = None
        for bid, blk in b.blocks.items():
            if blk.cleanup:
                continue
            for s in blk.stmts:
                m = re.match(r"^storage::Value::<[^>]*>::Transaction\((.*), (.*), (.*)\)$", s.rhs.strip()) if s.kind == 'assign' else None
                if not m:
                    continue
                du = du or DefUse(b)
                o = du.origins(m.group(2), stop_at_calls=False)
                has_param = any(x[0] == 'param' for x in o)
                from_enum = any(x[0] == 'call' and ('Enumerate' in x[1] or x[1].endswith('from_be_bytes')) for x in o)
                const_idx = m.group(2).strip().startswith('const ') or any((x[0] == 'call' and x[1].endswith('max_value')) or (x[0] == 'const' and re.search(r'4294967295_u32|u32::MAX', x[1]))
                                or (x[0] == 'named_const' and x[1] == 'MAX') for x in o)
                if not const_idx or from_enum:
                    continue
                nsent += 1
                ctx.fn(b)
                # the put that consumes this value
                puts = [(pb, t) for pb, k, t in P.call_keys(b) if k in ('Batch::put_kv', 'Batch::put') and len(t.args) >= 3
                        and any(x[0] == 'agg' and x[2] == bid for x in du.origins(t.args[2], stop_at_calls=False))]
                if not puts:
                    raise Inconclusive('sentinel Value::Transaction in %s is not consumed by a batch put' % b.name)
                cfg = P.cfg(b)
                pb, pt = puts[0]
                looks = [(lb, t) for lb, k, t in P.call_keys(b) if k in ('Storage::get_transaction', 'Storage::get', 'Storage::get_transaction_with_header')
                         and cfg.dominates(lb, pb)]
                ok = any(controlled_by(b, cfg, du, pb, lb, set(), 0) for lb, lt in looks) and not cfg.postdominates(pb, cfg.entry)
                ctx.ob('C03.r1', b.name, 'placeholder tx_index is written only after consulting the existing TxHash record', ok, at=pt.span,
                       lookups=len(looks),
                       failing_history=None if ok else 'T indexed by filter_block (real tx_index) -> fetch_transaction(T) proof arrives -> record overwritten with '
                       'tx_index=u32::MAX -> a later block spends T: the CellLockScript delete key is built with u32::MAX and the spent cell stays live')
    ctx.floor('C03.r1', 'TxHash records written with a constant tx_index', nsent, 1)

    # r2 block order ---------------------------------------------------------------------------
    C = ctx.body('Peers::clear_matched_blocks')
    ccfg = P.cfg(C)
    sorts = P.call_sites(C, lambda k, t: k.endswith('::sort_by_key') or k.endswith('::sort_by') or k.endswith('::sort_unstable_by_key'))
    if not sorts:
        ctx.ob('C03.r2', C.name, 'downloaded blocks are sorted by number before they are returned', False, detail='no sort call')
    else:
        ctx.ob('C03.r2', C.name, 'downloaded blocks are sorted by number before they are returned', all(ccfg.dominates(sorts[0][0], e) for e in ccfg.exits), at=sorts[0][1].span)
        keyc = [c for c in P.closures_of(C) if P.call_sites(c, lambda k, t: k.endswith('RawHeader::number') or k.endswith('HeaderView::number'))]
        ctx.ob('C03.r2', C.name, 'the sort key is the block number', bool(keyc))
        # ... as an integer: the key closure returns the unpacked u64 (packed numbers are little-endian bytes, whose
        # lexicographic order is not numeric order); sort_by_key sorts ascending
        num_key = bool(keyc) and keyc[0].ret.strip() == 'u64' and \
            bool(P.call_sites(keyc[0], lambda k, t: k.endswith('Unpack>::unpack') or k.endswith('HeaderView::number')))
        ctx.ob('C03.r2', C.name, 'the sort key is the number as an integer (u64), ascending', num_key and sorts[0][1].callee.find('sort_by_key') != -1 and 'Reverse' not in keyc[0].ret,
               key_type=keyc[0].ret.strip() if keyc else None)
        cdu = DefUse(C)
        ret_ok = any(s.kind == 'assign' and s.lhs.strip() == '_0' and set(re.findall(r'_\d+', s.rhs)) & base_set(cdu, sorts[0][1].args[0])
                     for blk in C.blocks.values() if not blk.cleanup for s in blk.stmts)
        ctx.ob('C03.r2', C.name, 'the returned vector is the sorted one', ret_ok)
    R = ctx.body(RECV + '::{closure#0}')
    rdu = DefUse(R)
    fb = ctx.sites(R, 'Storage::filter_block', 1)
    t = R.blocks[fb[0][0]].term
    ctx.ob('C03.r2', R.name, 'filter_block is applied to the blocks returned by clear_matched_blocks, in iteration order',
           rdu.from_call(t.args[1], 'Peers::clear_matched_blocks') and rdu.from_call(t.args[1], lambda k: k.endswith('Iterator>::next')), at=t.span)
    rcfg = P.cfg(R)
    ub = P.call_sites(R, 'Storage::update_block_number')
    ctx.ob('C03.r2', R.name, 'script numbers are raised only after the whole batch was indexed',
           bool(ub) and fb[0][0] not in rcfg.reachable_from(rcfg.succ[ub[0][0]]), at=ub[0][1].span if ub else None)
    ctx.guard('C03.r2', R, 'Peers::all_matched_blocks_downloaded', 'true', fb)

    # r3 layout --------------------------------------------------------------------------------
    from rules.C13 import writer_widths, expected_key_ranges, all_facts
    widths, vseq = writer_widths(ctx)
    RB = ctx.body('Storage::rollback_to_block')
    fs = all_facts(P, RB)
    exp = set()
    pos = 0
    for w in widths:
        exp.add(('range', 'x+%d' % pos if pos else '?', 'x+%d' % (pos + w)))
        pos += w
    ctx.ob('C03.r3', RB.name, 'rollback parses (number, tx_index, cell_index) at prefix+0/+8/+12 as written by append_key', exp <= fs, expected=sorted(map(str, exp)),
           got=sorted(map(str, {f for f in fs if f[0] == 'range'})))
    # io type byte at prefix + 16
    idx16 = any(re.search(r'(Checked)?Add\(.*const %d_usize\)' % pos, s.text) for c in P.closures_of(RB) for blk in c.blocks.values() for s in blk.stmts)
    ctx.ob('C03.r3', RB.name, 'rollback reads the io-type byte at prefix+%d' % pos, idx16)
    for name in ('<BlockFilterRpcImpl as BlockFilterRpc>::get_cells', '<BlockFilterRpcImpl as BlockFilterRpc>::get_cells_capacity'):
        F = ctx.body(name)
        f2 = all_facts(P, F)
        e = expected_key_ranges(widths, False)
        ctx.ob('C03.r3', name, 'cell keys are sliced at the written offsets', {e[0], e[2]} <= f2)
    FB = ctx.body('Storage::filter_block')
    # keys are only ever built through Key::into_vec / append_key (no hand-rolled key bytes for index families)
    handmade = []
    for b in P.bodies:
        if b.promoted is not None or not b.file.startswith('src/') or b.name in ('<Vec as From>::from', 'append_key'):
            continue
        for blk in b.blocks.values():
            if blk.cleanup:
                continue
            for s in blk.stmts:
                if s.kind == 'assign' and re.search(r'storage::KeyPrefix::(CellLockScript|CellTypeScript)\b', s.rhs) and P.parent_fn(b).name not in (
                        'build_query_options',):
                    handmade.append((P.parent_fn(b).name, str(s.span)))
    ctx.ob('C03.r3', 'storage', 'cell index keys are assembled only by Key::into_vec/append_key (and query prefixes by build_query_options)',
           not handmade, others=handmade)

    # r4 who may index ---------------------------------------------------------------------------
    ctx.only_callers('C03.r4', 'Storage::filter_block', {RECV, 'Storage::update_filter_scripts', 'Storage::init_genesis_block'}, 2)  # init: genesis for scripts at block 0 after a set_scripts that died early (F49)
    ctx.only_callers('C03.r4', 'Storage::update_block_number', {RECV, 'BlockFiltersProcess::execute'}, 2)
    U = ctx.body('Storage::update_filter_scripts')
    udu = DefUse(U)
    uf = P.call_sites(U, 'Storage::filter_block')
    if uf:
        ctx.ob('C03.r4', U.name, 'set_scripts indexes only the genesis block read back from the store', udu.from_call(uf[0][1].args[1], 'Storage::get_genesis_block'), at=uf[0][1].span)
    # the script set a batch is matched against (shared with C09.r6): a script registered inside the batch must not be skipped
    from rules.C09 import batch_script_set
    batch_script_set(ctx, 'C03.r5')
    # reviewed reference of the storage functions' durable writes (engine/census.py)
    from rules import census_fns
    # r6 (F41): the block filters are matched only for the scripts whose block number is behind the batch (get_scripts_hash),
    # so a block downloaded for one script must not be indexed again for a script which has already passed it: the outputs it
    # would re-insert were possibly spent in later blocks which are not downloaded again
    FB = ctx.body('Storage::filter_block')
    fdu = DefUse(FB)
    prog_filters = []
    for c in P.closures_of(FB, transitive=False):
        tag = re.search(r'\[closure@([^\]]+)\]', c.sig_args)
        cdu = DefUse(c)
        for blk in c.blocks.values():
            if blk.cleanup:
                continue
            for st in blk.stmts:
                m = re.match(r'^(Le|Lt|Ge|Gt)\((.*), (.*)\)$', (st.rhs or '').strip()) if st.kind == 'assign' and st.lhs.strip() == '_0' else None
                if not m or not tag:
                    continue
                # script progress (a field of the closure's ScriptStatus parameter) compared with the captured block number
                lhs_param = any(o[0] == 'param' for o in cdu.origins(m.group(2), stop_at_calls=False))
                rhs_param = any(o[0] == 'param' for o in cdu.origins(m.group(3), stop_at_calls=False))
                if m.group(1) in ('Le', 'Lt') and lhs_param or m.group(1) in ('Ge', 'Gt') and rhs_param:
                    prog_filters.append(tag.group(1))
    flt = [(bid, t) for bid, k, t in P.call_keys(FB) if k.endswith('Iterator>::filter')
           and any(t.callee.rstrip().endswith('::filter::<[closure@%s]>' % g) for g in prog_filters)
           and fdu.from_call(t.args[0], 'Storage::get_filter_scripts')]
    used = [t for _, k, t in P.call_keys(FB) + [x for c in P.closures_of(FB) for x in P.call_keys(c)] if k.endswith('HashSet::contains')]
    setok = bool(flt) and any(o[0] == 'call' and o[1].endswith('Iterator>::filter') for bid, k, t in P.call_keys(FB) if k.endswith('Iterator>::collect')
                              for o in fdu.origins(t.args[0], stop_at_calls=False))
    ctx.ob('C03.r6', FB.name, 'a block is indexed only for the scripts whose block number has not passed it (script set = get_filter_scripts filtered by progress <= block number)',
           bool(flt) and setok, filters=len(flt), membership_tests=len(used),
           failing_history=None if (flt and setok) else 'T registered at 0 and synced to the tip: tx1 (block b1) creates a T cell and an S cell, tx2 (block b2 > b1) spends the T cell; '
           'set_scripts([S@0], partial) and sync again: b1 matches S, is downloaded and filter_block re-inserts the T cell; b2 does not match S and is never downloaded again')
    # r7 (F35): an input's previous transaction is looked up among the transactions of the block being indexed FIRST; the store is
    # only the fallback (a record of a fetched transaction, tx index u32::MAX, would shadow the real index and the spent cell stays live)
    nlook = 0
    for c in [FB] + P.closures_of(FB):
        for bid, t in P.call_sites(c, 'Storage::get_transaction'):
            nlook += 1
            ok = False
            why = 'store lookup neither inside an `or_else` fallback of the block-local lookup nor behind `txs.get(..) == None`'
            tag = re.search(r'\[closure@([^\]]+)\]', c.sig_args or '') if c is not FB else None
            if tag:
                # lazy fallback: the closure is the argument of Option::or_else on a value derived from HashMap::get
                for par in [FB] + P.closures_of(FB):
                    pdu = DefUse(par)
                    for pb, pt in P.call_sites(par, lambda k, tt: k.endswith('Option::or_else') and ('[closure@%s]' % tag.group(1)) in tt.callee):
                        if pdu.from_call(pt.args[0], lambda k: k.endswith('HashMap::get')):
                            ok = True
            if not ok:
                gets = P.call_sites(c, lambda k, tt: k.endswith('HashMap::get'))
                if gets:
                    from engine.flow import GuardFlow
                    gf = GuardFlow(c, P.cfg(c))
                    for gb, gt in gets:
                        try:
                            good, _ = gf.check_sink(gb, 'None', bid, True)
                        except Exception:
                            good = False
                        ok = ok or good
            ctx.ob('C03.r7', c.name, 'a stored transaction record is consulted by filter_block only as the fallback of the lookup in the block being indexed (stored records may be placeholders of fetched transactions)', ok, at=t.span,
                   problem=None if ok else why,
                   failing_history=None if ok else 'fetch_transaction(T) stores T with tx index u32::MAX; the block containing T and a spender of T in the same block is indexed: '
                   'the live-cell key is built with u32::MAX, the delete misses the real key, the spent cell stays live')
    ctx.floor('C03.r7', 'previous-transaction lookups in filter_block', nlook, 1)
    census_fns.run(ctx, 'C03')


def controlled_by(body, cfg, du, block, lookup_block, seen, depth):
    """Is `block` (transitively, through flag locals assigned in branches) control dependent on a decision whose
    discriminant data-derives from the call in lookup_block?"""
    if depth > 6 or block in seen:
        return False
    seen.add(block)
    for d in cfg.control_deps(block):
        t = body.blocks[d].term
        if t.kind != 'switchInt':
            continue
        org = du.origins(t.discr, stop_at_calls=False)
        if any(x[0] == 'call' and x[2] == lookup_block for x in org):
            return True
        # flag local: follow the blocks that assign it (through copy / Not chains)
        srcs = set()
        stack = [int(x) for x in re.findall(r'_(\d+)', t.discr)]
        while stack:
            l = stack.pop()
            if l in srcs:
                continue
            srcs.add(l)
            for kind, bid, obj in du.defs.get(l, []):
                if kind == 'assign':
                    stack += [int(x) for x in re.findall(r'_(\d+)', obj.rhs)]
        for l in srcs:
            for kind, bid, obj in du.defs.get(l, []):
                if bid != d and controlled_by(body, cfg, du, bid, lookup_block, seen, depth + 1):
                    return True
    return False


def base_set(du, operand):
    out = set()
    stack = [int(x) for x in re.findall(r'_(\d+)', operand)]
    while stack:
        l = stack.pop()
        if l in out:
            continue
        out.add(l)
        for kind, bid, obj in du.defs.get(l, []):
            if kind == 'assign' and re.match(r"^(&(mut )?|move |copy )?\(?\*?_\d+\)?( as .*)?$", obj.rhs.strip()):
                stack += [int(x) for x in re.findall(r'_(\d+)', obj.rhs)]
            if kind == 'call' and ('deref' in obj.callee.lower()):
                stack += [int(x) for x in re.findall(r'_(\d+)', obj.args[0])]
    return {'_%d' % x for x in out}
