"""C06 — block filters are acted on only if authentic and attributed to the right block (DESIGN §5 C06)."""
import re
from engine.rules import Inconclusive
from engine.defuse import DefUse

EXPLANATION = (
    'All-paths rules over the MIR of BlockFiltersProcess::execute: (r1) recording matched blocks, advancing the filtered height '
    'and matching filter data are reachable only in worlds where the peer has a prove state, start_number == min_filtered+1, '
    'the filter and hash vectors have equal non-zero length, and no computed filter hash differed from the expected one; (r2) '
    'the accepted prefix: the limit given to check_filters_data, the take() of the verified loop, the recorded count and the new '
    'filtered height all derive from min(filters, known hashes), the matched blocks recorded are the result of check_filters_data, and '
    'the loop zips the filters with the whole vector whose length bounds the limit; (r3) expected hashes and the parent hash originate only from '
    'finalized check points, the cached hashes and the quorum-agreed latest hashes; (r4) height binding: a block hash taken from '
    'the message must be tied to the height of its filter before the block is indexed.')
NOT_DECIDED = 'Quorum semantics of get_latest_block_filter_hashes (see C07); GCS filter matching itself (golomb-coded-set, trusted).'

EXEC = 'BlockFiltersProcess::execute'


def run(ctx):
    P = ctx.prog
    ctx.explanation, ctx.not_decided = EXPLANATION, NOT_DECIDED
    F = ctx.body(EXEC)
    du = DefUse(F)
    cfg = P.cfg(F)

    # sinks
    amb = ctx.sites(F, 'Storage::add_matched_blocks', 1)
    umf = ctx.sites(F, 'FilterProtocol::update_min_filtered_block_number', 1)
    cfd = ctx.sites(F, 'FilterProtocol::check_filters_data', 1)
    # update_block_number with the *new* filtered number (operand derives from the message's start_number)
    ubn_all = P.call_sites(F, 'Storage::update_block_number')
    ubn = [(b, t.span, 'Storage::update_block_number(filtered)') for b, t in ubn_all
           if du.from_call(t.args[1], lambda k: k.endswith('BlockFilters::start_number'))]
    ctx.floor('C06.r1', 'update_block_number(filtered_block_number)', len(ubn), 1)
    sinks = amb + umf + cfd + ubn

    # r1 guards
    ctx.guard('C06.r1', F, 'PeerState::get_prove_state', 'Some', sinks)
    cs = ctx.cmp_stmts(F)

    def org(x):
        return {o[1] for o in du.origins(x, stop_at_calls=False) if o[0] == 'call'}
    cont = [c for c in cs if c[2] in ('Ne', 'Eq') and (
        (any(k == 'Storage::get_min_filtered_block_number' for k in org(c[3])) and any(k.endswith('BlockFilters::start_number') for k in org(c[4]))) or
        (any(k == 'Storage::get_min_filtered_block_number' for k in org(c[4])) and any(k.endswith('BlockFilters::start_number') for k in org(c[3]))))]
    if not cont:
        ctx.ob('C06.r1', F.name, 'start_number is compared with min_filtered_block_number + 1', False, at=sinks[0][1])
    for c in cont:
        ctx.stmt_guard('C06.r1', F, [c], 'false' if c[2] == 'Ne' else 'true', sinks, gname='min_filtered + 1 %s start_number' % ('!=' if c[2] == 'Ne' else '=='))
        # the +1: the min_filtered operand passes through an Add with constant 1
        side = c[3] if any(k == 'Storage::get_min_filtered_block_number' for k in org(c[3])) else c[4]
        ops = {o[1] for o in du.origins(side) if o[0] == 'op'}
        consts = {o[1] for o in du.origins(side) if o[0] == 'const'}
        ctx.ob('C06.r1', F.name, 'continuity test uses min_filtered_block_number + 1', 'CheckedAdd' in ops or 'Add' in ops, at=c[5].span,
               ops=sorted(ops))
    lens = [c for c in cs if c[2] in ('Ne', 'Eq') and any(k.endswith('BytesVec::len') for k in org(c[3]) | org(c[4]))
            and any(k.endswith('Byte32Vec::len') for k in org(c[3]) | org(c[4]))]
    if not lens:
        ctx.ob('C06.r1', F.name, 'filters length is compared with block_hashes length', False, at=sinks[0][1])
    for c in lens:
        ctx.stmt_guard('C06.r1', F, [c], 'false' if c[2] == 'Ne' else 'true', sinks, gname='filters_count %s blocks_count' % ('!=' if c[2] == 'Ne' else '=='))
    zero = [c for c in cs if c[2] in ('Eq', 'Ne') and c[4] == 'const 0_usize' and any(k.endswith('BytesVec::len') for k in org(c[3]))
            and cfg.dominates(c[0], cfd[0][0])]
    if not zero:
        ctx.ob('C06.r1', F.name, 'empty filter batch is rejected before use', False, at=sinks[0][1])
    for c in zero:
        ctx.stmt_guard('C06.r1', F, [c], 'false' if c[2] == 'Eq' else 'true', sinks, gname='filters_count %s 0' % ('==' if c[2] == 'Eq' else '!='))
    # hash chain loop
    def is_hash_ne(k, t):
        return k == '<Byte32 as PartialEq>::ne' and (du.from_call(t.args[0], 'calc_filter_hash') or du.from_call(t.args[1], 'calc_filter_hash'))
    ctx.loop_guard('C06.r1', F, is_hash_ne, 'false', gname='calc_filter_hash(parent, filter) != expected', sinks=sinks)

    # r2 accepted prefix
    mins = P.call_sites(F, lambda k, t: k == 'Ord::min')
    ctx.floor('C06.r2', 'cmp::min(filters_count, expected.len())', len(mins), 1)
    mt = mins[0][1]
    o0, o1 = org(mt.args[0]), org(mt.args[1])
    ctx.ob('C06.r2', F.name, 'limit = min(number of filters, number of known hashes)',
           (any(k.endswith('BytesVec::len') for k in o0 | o1)) and any(k.endswith('Vec::len') and not k.endswith('BytesVec::len') and not k.endswith('Byte32Vec::len') for k in o0 | o1),
           at=mt.span, arg0=sorted(o0)[:6], arg1=sorted(o1)[:6])

    def from_min(x):
        return any(o[0] == 'call' and o[2] == mins[0][0] for o in du.origins(x, stop_at_calls=False))
    ct = F.blocks[cfd[0][0]].term
    ctx.ob('C06.r2', F.name, 'check_filters_data is limited to the verified prefix', from_min(ct.args[2]), at=ct.span)
    takes = P.call_sites(F, lambda k, t: k.endswith('Iterator>::take') and 'BytesVecIterator' in t.callee)
    ctx.floor('C06.r2', 'filters().into_iter().take(..)', len(takes), 1)
    ctx.ob('C06.r2', F.name, 'the verified loop takes exactly the limit', from_min(takes[0][1].args[1]), at=takes[0][1].span)
    at_ = F.blocks[amb[0][0]].term
    ctx.ob('C06.r2', F.name, 'recorded blocks_count derives from the limit', from_min(at_.args[2]), at=at_.span)
    ctx.ob('C06.r2', F.name, 'the recorded matched blocks are the result of check_filters_data on the verified prefix',
           du.from_call(at_.args[3], 'FilterProtocol::check_filters_data'), at=at_.span)
    ctx.ob('C06.r2', F.name, 'the record is keyed by the message start_number (pinned to min_filtered + 1)',
           du.from_call(at_.args[1], lambda k: k.endswith('BlockFilters::start_number')), at=at_.span)
    for sb, sspan, lbl in umf + ubn:
        t = F.blocks[sb].term
        ctx.ob('C06.r2', F.name, 'new filtered height (%s) derives from the limit' % lbl, from_min(t.args[1]), at=t.span)
    # every accepted filter is hash-verified: the vector whose length bounds `limit` is the very vector the verifying loop zips the
    # filters with, from its first element (an offset / skip / other vector would leave a tail of the accepted prefix unverified)
    def base_local(op):
        cur = op.strip()
        for _ in range(12):
            m = re.fullmatch(r'(?:move |copy )?\(?\*?(_\d+)\)?', cur) or re.fullmatch(r"&(?:mut )?\(?\*?(_\d+)\)?", cur)
            if not m:
                return None
            loc = m.group(1)
            ds = du.defs.get(int(loc[1:]), [])
            if len(ds) == 1 and ds[0][0] == 'assign' and re.fullmatch(r"(?:move |copy |&(?:mut )?)\(?\*?_\d+\)?", ds[0][2].rhs.strip()):
                cur = ds[0][2].rhs.strip()
                continue
            return loc
        return None
    lens = [t for b, t in P.call_sites(F, lambda k, t: k == 'Vec::len') if any(o[0] == 'call' and o[2] == b for a in mt.args for o in du.origins(a, stop_at_calls=True))]
    zt = P.call_sites(F, lambda k, t: k.endswith('Iterator>::zip'))
    ok_same = False
    chain = []
    if len(lens) == 1 and zt:
        vlen = base_local(lens[0].args[0])
        zorg = [o for o in du.origins(zt[0][1].args[1], stop_at_calls=True) if o[0] == 'call']
        chain = sorted(o[1] for o in zorg)
        if len(zorg) == 1 and zorg[0][1] in ('<Vec as IntoIterator>::into_iter', 'slice::iter', '<&Vec as IntoIterator>::into_iter'):
            it = F.blocks[zorg[0][2]].term
            ok_same = vlen is not None and base_local(it.args[0]) == vlen
    ctx.ob('C06.r2', F.name, 'the loop verifies the filters against the whole vector whose length bounds the limit (no offset, no other vector)', ok_same,
           at=zt[0][1].span if zt else mt.span, zip_source=chain)
    # r3 provenance of expected hashes
    allowed_src = ('Peers::get_cached_block_filter_hashes', 'Peers::get_latest_block_filter_hashes', 'Storage::get_check_points',
                   'Storage::get_last_check_point')
    zips = P.call_sites(F, lambda k, t: k.endswith('Iterator>::zip'))
    ctx.floor('C06.r3', 'zip(filters, expected hashes)', len(zips), 1)
    zo = org(zips[0][1].args[1])
    ctx.ob('C06.r3', F.name, 'expected hashes come from cached / latest block filter hashes',
           bool(zo & set(allowed_src[:2])) and not any(k.endswith('BlockFilters::block_hashes') or k.endswith('BlockFilters::filters') for k in zo),
           at=zips[0][1].span, sources=sorted(zo & set(allowed_src)))
    cf = P.call_sites(F, 'calc_filter_hash')
    po = org(cf[0][1].args[0])
    ctx.ob('C06.r3', F.name, 'parent filter hash comes from a finalized check point or verified hashes',
           bool(po & set(allowed_src)) and not any(k.endswith('BlockFilters::block_hashes') for k in po), at=cf[0][1].span,
           sources=sorted(po & set(allowed_src)))
    # hashes used for matched blocks: check_filters_data returns message block_hashes (documented: unverified)
    height_binding(ctx)
    anchoring(ctx)
    # the block downloaded for a matching filter is a proven-chain block: what is marked proved comes from verified headers (shared with C02.r5)
    from rules.C02 import proved_data_provenance
    proved_data_provenance(ctx, 'C06.r6')
    # reviewed reference of the checker functions' decision structure (engine/census.py)
    from rules import census_fns
    # r7 (F65-F67): bookkeeping around an accepted batch
    BFP = 'BlockFiltersProcess::execute'
    census_fns.requires(ctx, 'C06.r7', BFP, r'^call Storage::update_block_number\(arg1\.filter\.storage, Add\(', r'Storage::get_earliest_matched_blocks\(.*\) is None',
                        'a batch without a match raises the script numbers only if no matched-blocks record is pending in the store (not just in memory)',
                        'restart (or fork, or a missing matched block) with record (31,2,[B31]) pending: an authentic unmatched batch [33,34] raises the script to 34; B31, proved and '
                        'downloaded later, is skipped by filter_block')
    Bb = ctx.body(BFP)
    flag = [c for c in P.closures_of(Bb, transitive=False) if any(k.endswith('Byte32 as PartialEq>::eq') for _, k, _ in P.call_keys(c))
            and any(st.kind == 'assign' and st.lhs.strip() == '_0' and re.match(r'^\(', (st.rhs or '').strip()) for blk in c.blocks.values() if not blk.cleanup for st in blk.stmts)]
    bdu = DefUse(Bb)
    tip_based = False
    for c in flag:
        tag = re.search(r'\[closure@([^\]]+)\]', c.sig_args).group(1)
        for blk in Bb.blocks.values():
            if blk.cleanup:
                continue
            for st in blk.stmts:
                if st.kind == 'assign' and ('closure@' + tag) in (st.rhs or ''):
                    org = {o[1] for a in re.findall(r'_\d+', st.rhs) for o in bdu.origins(a, stop_at_calls=False) if o[0] == 'call'}
                    if any(x.endswith('Storage::get_tip_header') for x in org) and not any(x.endswith('ProveState::get_last_header') for x in org):
                        tip_based = True
    ctx.ob('C06.r7', BFP, 'a matched block is recorded as proved only if it is the stored tip (not the last header of the sender\'s prove state)', tip_based,
           failing_history=None if tip_based else 'P1, P2 on branch A (tip A20), client tip B25 from Q; 2 of 3 peers agree on A\'s filter hashes: the authentic A filters mark A20 proved '
           'without any proof and it is indexed')
    census_fns.requires(ctx, 'C06.r7', 'SendBlocksProofProcess::execute_internally', r'^call Peers::mark_matched_blocks_proved', r'Storage::get_tip_header',
                        'matched blocks are marked proved only by a blocks proof whose request was made for the current stored tip',
                        'GetBlocksProof(last A15, [A14]) outstanding; fork to B; the held-back SendBlocksProof marks A14 proved after the kept record is recovered: A14 is downloaded and indexed')
    census_fns.run(ctx, 'C06')


def height_binding(ctx):
    """r4: the block hashes recorded as matched come from the BlockFilters message.  Before such a block is indexed,
    some comparison must tie a proven header's number to start_number + index (or to the recorded range)."""
    P = ctx.prog
    C = ctx.body('FilterProtocol::check_filters_data')
    srcs = set()
    for c in [C] + P.closures_of(C):
        for _, k, _ in P.call_keys(c):
            if k.endswith('BlockFilters::block_hashes'):
                srcs.add(c.name)
    ctx.floor('C06.r4', 'use of message block_hashes in check_filters_data', len(srcs), 1)
    # candidates: functions on the path record -> prove -> download -> index
    path_fns = ['BlockFiltersProcess::execute', 'FilterProtocol::check_filters_data', 'SendBlocksProofProcess::execute_internally',
                'Peers::mark_matched_blocks_proved', '<SyncProtocol as CKBProtocolHandler>::received', 'Peers::add_block',
                'Peers::clear_matched_blocks', 'Storage::filter_block', 'prove_or_download_matched_blocks', 'check_block_body']
    bound = []
    for name in path_fns:
        for b in P.by_name.get(name, []) + [c for x in P.by_name.get(name, []) for c in P.closures_of(x)]:
            du = DefUse(b)
            for (bid, i, op, a, bb, st) in ctx.cmp_stmts(b):
                oa = {o[1] for o in du.origins(a, stop_at_calls=False) if o[0] == 'call'}
                ob_ = {o[1] for o in du.origins(bb, stop_at_calls=False) if o[0] == 'call'}
                num = lambda s: any(k.endswith('HeaderView::number') or k.endswith('RawHeader::number') for k in s)
                rng = lambda s: any(k.endswith('start_number') or k.endswith('get_earliest_matched_blocks') or k.endswith('get_matched_blocks') for k in s)
                if (num(oa) and rng(ob_)) or (num(ob_) and rng(oa)):
                    bound.append((b.name, st.span))
    ctx.ob('C06.r4', 'BlockFiltersProcess::execute', 'matched block hash is bound to the height of its filter before indexing',
           bool(bound), comparisons=[(n, str(s)) for n, s in bound],
           detail=None if bound else 'BlockFilters.block_hashes[index] is recorded, proved by MMR and indexed without any comparison of the proven '
           'header number with start_number + index: an authentic filter can be paired with the hash of a different main-chain block')


def anchoring(ctx):
    """r5: cached block filter hashes are anchored to finalized check points before they authenticate filters."""
    P = ctx.prog
    from engine import panics
    Dz = panics.Discharger(P)
    H = ctx.body('BlockFilterHashesProcess::execute')
    hdu = DefUse(H)
    # the comparison with the next finalized check point
    nes = [(b, t) for b, t in P.call_sites(H, lambda k, t: k in ('<Byte32 as PartialEq>::ne', '<Byte32 as PartialEq>::eq'))
           if any(o[0] == 'call' and o[1] == 'Storage::get_check_points' for o in hdu.origins(t.args[0], stop_at_calls=False) | hdu.origins(t.args[1], stop_at_calls=False))
           and any(o[0] == 'call' and o[1].endswith('Index>::index') for o in hdu.origins(t.args[0], stop_at_calls=False) | hdu.origins(t.args[1], stop_at_calls=False))]
    upd = ctx.sites(H, 'Peers::update_cached_block_filter_hashes', 1)
    cmps = [c for c in Dz.cmps(H) if {c[3], c[4]} == {'end_number', 'next_cached_check_point_number'}]
    # which comparison controls the check-point comparison, and is it inclusive?
    cfg = P.cfg(H)
    incl = False
    ctrl = None
    for (bid, i, op, a, b) in cmps:
        for nb, nt in nes:
            for acc in ('true', 'false'):
                ok, _ = Dz.gf(H).check_sink((bid, i), acc, nb, unconditional=True)
                if ok:
                    ctrl = (op, a, b, acc)
                    # the controlling outcome must mean end_number >= next
                    if (a, b) == ('end_number', 'next_cached_check_point_number'):
                        incl = (op, acc) in (('Ge', 'true'), ('Lt', 'false'))
                    else:
                        incl = (op, acc) in (('Le', 'true'), ('Gt', 'false'))
    ctx.ob('C06.r5', H.name, 'the hash at the next check point is compared with the finalized check point whenever the batch reaches it', bool(nes) and incl,
           at=nes[0][1].span if nes else upd[0][1], controlling_test=ctrl,
           detail=None if (nes and incl) else 'a batch ending exactly at the check point is cached without the comparison (end_number > next instead of >=)')
    for nb, nt in nes[:1]:
        acc = 'false' if nt.callee.endswith('::ne') else 'true'
        ctx.guard('C06.r5', H, lambda k, t, _t=nt: t is _t, acc, upd, unconditional=False, gname='next_cached_check_point vs hash at that number')
    # BlockFiltersProcess: cached hashes are used only when complete
    F = ctx.body(EXEC)
    du = DefUse(F)
    def near(x):
        return {o[1] for o in du.origins(x, stop_at_calls=True) if o[0] == 'call'}
    comp = []
    for c in ctx.cmp_stmts(F):
        if c[2] not in ('Ne', 'Eq'):
            continue
        a, b = near(c[3]), near(c[4])
        for x, y in ((a, b), (b, a)):
            if 'Vec::len' in x and 'Peers::calc_check_point_number' in x and y == {'Peers::calc_check_point_number'}:
                comp.append(c)
    use = [(b, t.span, 'cached hashes used as expected hashes') for b, t in P.call_sites(F, lambda k, t: k.endswith('Iterator>::zip'))]
    if not comp:
        ctx.ob('C06.r5', F.name, 'cached hashes authenticate filters only when the whole interval up to the next check point is cached', False, at=use[0][1],
               detail='any non-empty cache is used; partially cached hashes cannot have been compared with a finalized check point')
    else:
        c = comp[0]
        # conditional: the latest-hashes branch does not evaluate it
        ctx.stmt_guard('C06.r5', F, [c], 'false' if c[2] == 'Ne' else 'true', use, unconditional=False,
                       gname='cached_check_point_number + cached.len() %s next_cached_check_point_number' % ('!=' if c[2] == 'Ne' else '=='))
        ctx.ob('C06.r5', F.name, 'cached hashes authenticate filters only when the whole interval up to the next check point is cached', True, at=c[5].span)
    # F28: the cached hashes are supplied by single peers and are tied to finalized values only at the two ends of the interval
    # (the parent check point and the hash AT the next check point).  A prefix of the interval verified against them is therefore
    # authenticated only once the verified chain reaches the next check point — or if the cached hashes themselves were agreed by
    # the quorum.  Structural form: on the cached branch the accepting sinks are guarded by a comparison of the batch extent
    # (start_number / limit / number of filters) with the next check point number, or get_cached_block_filter_hashes is fed from a
    # quorum (required_peers_count) computation.
    sinks = [(b, t.span, 'Storage::add_matched_blocks') for b, t in P.call_sites(F, 'Storage::add_matched_blocks')] + \
            [(b, t.span, 'update_min_filtered_block_number') for b, t in P.call_sites(F, 'FilterProtocol::update_min_filtered_block_number')]
    def far(x):
        return {o[1] for o in du.origins(x, stop_at_calls=False) if o[0] == 'call'}
    extent = []
    for c in ctx.cmp_stmts(F):
        a, b = far(c[3]), far(c[4])
        for x, y in ((a, b), (b, a)):
            is_next_cp = 'Peers::calc_check_point_number' in x and 'Peers::get_cached_block_filter_hashes' in x and 'Vec::len' not in x
            is_extent = any(k.endswith('BlockFilters::start_number') for k in y) and (any(k == 'Ord::min' or k.endswith('BytesVec::len') for k in y))
            if is_next_cp and is_extent:
                extent.append(c)
    U = ctx.body('Peers::update_cached_block_filter_hashes')
    quorum = 'Peers::required_peers_count' in P.transitive_callees('BlockFilterHashesProcess::execute') and \
        any(k == 'Peers::required_peers_count' for _, k, _ in P.call_keys(ctx.body('BlockFilterHashesProcess::execute')))
    ctx.ob('C06.r5', F.name, 'a prefix verified against cached (single-peer) hashes is accepted only when the verified chain reaches the next finalized check point, or the cached hashes are quorum-agreed',
           bool(extent) or quorum, at=sinks[0][1] if sinks else None,
           detail=None if (extent or quorum) else 'intermediate cached hashes are peer-chosen; BlockFilters for a prefix of the interval advance the filtered height although nothing ties the prefix to the next check point')

