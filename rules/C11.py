"""C11 — per-peer sync state machine follows its diagram (DESIGN §5 C11)."""
import os
import re
from engine.rules import Inconclusive, atxt
from engine import variants as V

EXPLANATION = (
    'The PeerState automaton is extracted from MIR on every run (per input variant: possible result variants, field '
    'provenance) and compared, exhaustively over the 7x4 variant x event table, with (r1) the plantuml diagram in peers.rs '
    'plus a frozen, reasoned list of extra edges; (r2) "a proof is never discarded": every prove_state-carrying input maps '
    'to a prove_state-carrying output whose field is moved from the input; (r3) sibling agreement between the predicates '
    'that select peers (require_new_*, get_prove_request/state, when_sent_request) and the Ok-domains of the transitions, '
    'which closes the take()-then-? hazard; (r4) Peer.state is written only by the four Peers transition wrappers; (r5) an '
    'unchanged last state is not refreshed and a proof is accepted only for the outstanding request; (r6) timeout and '
    'disconnect paths mark in-flight fetches before the peer is dropped; (r7) status codes: only 4xx ban.')
NOT_DECIDED = 'Timer arithmetic (now > when_sent + MESSAGE_TIMEOUT) and multi-peer interleavings are value/schedule clauses.'

PEERS_RS = 'src/protocols/light_client/peers.rs'
EVENTS = {
    'Send GetLastState': 'request_last_state',
    'Receive SendLastState': 'receive_last_state',
    'Send GetLastStateProof': 'request_last_state_proof',
    'Receive SendLastStateProof': 'receive_last_state_proof',
}
# extracted edges that are not in the diagram, each with the reason it is legitimate
EXTRAS = {
    ('receive_last_state', 'OnlyHasLastState', 'OnlyHasLastState'): 'in-place refresh of the announced last state',
    ('receive_last_state', 'RequestFirstLastStateProof', 'RequestFirstLastStateProof'): 'in-place refresh while a proof is outstanding',
    ('receive_last_state', 'Ready', 'Ready'): 'subscription push of a new last state; proof kept',
    ('receive_last_state', 'RequestNewLastStateProof', 'RequestNewLastStateProof'): 'in-place refresh while a proof is outstanding',
    ('request_last_state_proof', 'RequestFirstLastStateProof', 'RequestFirstLastStateProof'): 'request replaced (TAU recheck / long-fork re-request)',
    ('request_last_state_proof', 'RequestNewLastStateProof', 'RequestNewLastStateProof'): 'request replaced (TAU recheck / long-fork re-request)',
    ('request_last_state', 'OnlyHasLastState', 'OnlyHasLastState'): 'no-op: nothing is waiting, last state re-requested',
    ('receive_last_state_proof', 'OnlyHasLastState', 'Ready'): 'prove state copied from another peer that proved the same header',
    ('receive_last_state_proof', 'Ready', 'Ready'): 'child fast path / copy of an already proved state',
}


def parse_diagram(repo):
    src = open(os.path.join(repo, PEERS_RS), errors='replace').read()
    m = re.search(r'@startuml(.*?)@end', src, flags=re.S)
    if not m:
        raise Inconclusive('ANCHOR-MISSING: plantuml block in peers.rs')
    txt = m.group(1)
    alias = dict((a, n) for n, a in re.findall(r'state\s+"(\w+)"\s+as\s+(\w+)', txt))
    edges = []
    init = None
    for a, b, label in re.findall(r'^\s*\*\s*(\[\*\]|\w+)\s*-(?:\w*-)?>\s*(\w+)\s*:\s*(.+?)\s*$', txt, flags=re.M):
        label = re.sub(r'\s+', ' ', label.strip())
        if a == '[*]':
            init = alias.get(b)
            continue
        if label not in EVENTS:
            raise Inconclusive('unrecognised diagram label %r' % label)
        edges.append((EVENTS[label], alias[a], alias[b]))
    return init, edges


def run(ctx):
    P = ctx.prog
    ctx.explanation, ctx.not_decided = EXPLANATION, NOT_DECIDED
    vs = V.enum_variants(P.repo, PEERS_RS, 'PeerState')
    if not vs or len(vs) < 7:
        raise Inconclusive('ANCHOR-MISSING: enum PeerState (found %r)' % (vs,))
    names = [v[0] for v in vs]
    fields = dict(vs)
    tables = {}
    for fn in ('request_last_state', 'receive_last_state', 'request_last_state_proof', 'receive_last_state_proof',
               'require_new_last_state', 'require_new_last_state_proof', 'get_prove_request', 'get_prove_state',
               'get_last_state', 'when_sent_request'):
        b = ctx.body('PeerState::' + fn)
        tab, disp = V.dispatch_table(b, 'PeerState', vs)
        if tab is None:
            raise Inconclusive('no enum dispatch found in PeerState::%s' % fn)
        for v in names:
            if not tab[v]:
                raise Inconclusive('PeerState::%s: no outcome extracted for variant %s' % (fn, v))
        tables[fn] = tab
        # cross-check variant indices against MIR downcast names in each arm
        check_downcasts(ctx, b, disp, names)

    def ok_variants(fn):
        return {v for v in names if any(o.kind == 'Ok' for o in tables[fn][v])}

    def some_variants(fn):
        return {v for v in names if any(o.kind == 'Some' for o in tables[fn][v])}

    def may_true(fn):
        return {v for v in names if any(o.kind in ('true', 'value') for o in tables[fn][v])}

    # ---- r1 transition table vs diagram -------------------------------------------------
    init, doc = parse_diagram(P.repo)
    ctx.floor('C11.r1', 'documented edges', len(doc), 8)
    extracted = set()
    for fn in EVENTS.values():
        for v in names:
            for o in tables[fn][v]:
                if o.kind == 'Ok':
                    if o.variant is None:
                        raise Inconclusive('PeerState::%s(%s): Ok result with unrecognised construction' % (fn, v))
                    extracted.add((fn, v, v if o.variant == '<self>' else o.variant))
    for e in doc:
        ctx.ob('C11.r1', 'PeerState::' + e[0], 'documented edge %s -> %s is implemented' % (e[1], e[2]), e in extracted)
    for e in sorted(extracted - set(doc)):
        ctx.ob('C11.r1', 'PeerState::' + e[0], 'undocumented edge %s -> %s is a reviewed extra' % (e[1], e[2]), e in EXTRAS,
               reason=EXTRAS.get(e))
    D = ctx.body('<PeerState as Default>::default')
    dflt = [s.rhs for blk in D.blocks.values() for s in blk.stmts if s.kind == 'assign' and s.lhs.strip() == '_0']
    ctx.ob('C11.r1', D.name, 'initial state is %s' % init, len(dflt) == 1 and dflt[0].strip().endswith('PeerState::' + (init or '?')), got=dflt)

    # ---- r2 proof never discarded --------------------------------------------------------
    for fn in ('request_last_state', 'receive_last_state', 'request_last_state_proof'):
        for v in names:
            if 'prove_state' not in fields[v]:
                continue
            idx = fields[v].index('prove_state')
            for o in tables[fn][v]:
                if o.kind != 'Ok':
                    continue
                if o.variant == '<self>':
                    good = True
                else:
                    good = 'prove_state' in fields.get(o.variant, []) and o.fields.get('prove_state') == 'self.%s.%d' % (v, idx)
                ctx.ob('C11.r2', 'PeerState::' + fn, '%s keeps its prove_state' % v, good, at=o.at, result=repr(o), fields=o.fields)
    # receive_last_state_proof installs exactly the new prove state
    for v in names:
        for o in tables['receive_last_state_proof'][v]:
            if o.kind == 'Ok':
                ctx.ob('C11.r2', 'PeerState::receive_last_state_proof', '%s -> Ready with the new prove state' % v,
                       o.variant == 'Ready' and o.fields.get('prove_state', '').startswith('param'), at=o.at, fields=o.fields)

    # ---- r3 sibling agreement ------------------------------------------------------------
    def subset(what, a, b):
        ctx.ob('C11.r3', 'PeerState', what, a <= b, lhs=sorted(a), rhs=sorted(b), missing=sorted(a - b))
    subset('require_new_last_state may be true only where request_last_state is Ok', may_true('require_new_last_state'), ok_variants('request_last_state'))
    subset('require_new_last_state_proof may be true only where request_last_state_proof is Ok', may_true('require_new_last_state_proof'), ok_variants('request_last_state_proof'))
    subset('get_prove_request is Some only where receive_last_state_proof is Ok', some_variants('get_prove_request'), ok_variants('receive_last_state_proof'))
    subset('get_prove_request is Some only where request_last_state_proof is Ok', some_variants('get_prove_request'), ok_variants('request_last_state_proof'))
    image = set()
    for v in some_variants('get_prove_state'):
        for o in tables['receive_last_state'][v]:
            if o.kind == 'Ok':
                image.add(v if o.variant == '<self>' else o.variant)
    subset('states with a proof, after receive_last_state, accept receive_last_state_proof', image, ok_variants('receive_last_state_proof'))
    subset('every state with a proof accepts receive_last_state', some_variants('get_prove_state'), ok_variants('receive_last_state'))
    for fn, fld in (('when_sent_request', 'when_sent'), ('get_last_state', 'last_state'), ('get_prove_state', 'prove_state'), ('get_prove_request', 'request')):
        want = {v for v in names if fld in fields[v]}
        got = some_variants(fn)
        none_ok = all(any(o.kind == 'None' for o in tables[fn][v]) for v in names if v not in want)
        ctx.ob('C11.r3', 'PeerState::' + fn, 'Some exactly for the variants with a %s field' % fld, want == got and none_ok,
               want=sorted(want), got=sorted(got))

    # ---- r4 field-write ownership ----------------------------------------------------------
    allowed = {'Peers::request_last_state', 'Peers::update_last_state', 'Peers::update_prove_request', 'Peers::update_prove_state'}
    writers = {}
    st_re = re.compile(r'\.0: protocols::light_client::peers::PeerState\)')
    for b in P.bodies:
        for blk in b.blocks.values():
            if blk.cleanup:
                continue
            for s in blk.stmts:
                if s.kind != 'assign':
                    continue
                if st_re.search(s.lhs) and 'Peer' in s.lhs:
                    writers.setdefault(P.parent_fn(b).name, []).append(('assign', s.span))
                elif re.match(r'^&mut \(\(\*_\d+\)\.0: protocols::light_client::peers::PeerState\)$', s.rhs.strip()):
                    writers.setdefault(P.parent_fn(b).name, []).append(('&mut', s.span))
    # restrict to bodies whose base is a Peer (the .0 field of Peer is `state`)
    ctx.floor('C11.r4', 'functions writing Peer.state', len(writers), 4)
    for w in sorted(writers):
        ctx.ob('C11.r4', w, 'writes or mutably borrows Peer.state', w in allowed, at=writers[w][0][1], kinds=sorted({k for k, _ in writers[w]}))
    ctx.only_callers('C11.r4', 'PeerState::take', allowed, 4)
    for fn in EVENTS.values():
        ctx.only_callers('C11.r4', 'PeerState::' + fn, {'Peers::' + {'request_last_state': 'request_last_state', 'receive_last_state': 'update_last_state',
                         'request_last_state_proof': 'update_prove_request', 'receive_last_state_proof': 'update_prove_state'}[fn]}, 1)

    # ---- r5 ------------------------------------------------------------------------------
    S = ctx.body('SendLastStateProcess::execute')
    uls = ctx.sites(S, 'Peers::update_last_state', 2)
    ctx.guard('C11.r5', S, 'LastState::is_same_as', 'false', uls, unconditional=False)
    child = ctx.sites(S, 'LightClientProtocol::update_prove_state_to_child', 1)
    ctx.guard('C11.r5', S, 'LastState::is_same_as', 'false', child, unconditional=True)
    E = ctx.body('SendLastStateProofProcess::execute')
    csinks = ctx.sites(E, 'LightClientProtocol::commit_prove_state', 1)
    ctx.guard('C11.r5', E, 'PeerState::get_prove_request', 'Some', csinks)
    ctx.guard('C11.r5', E, 'ProveRequest::is_same_as', 'true', csinks)

    # ---- r6 timeouts / disconnect -------------------------------------------------------------
    R = ctx.body('LightClientProtocol::refresh_all_peers')
    cfg = P.cfg(R)
    disc = P.call_sites(R, lambda k, t: k.endswith('CKBProtocolContext>::disconnect'))
    ctx.floor('C11.r6', 'nc.disconnect in refresh_all_peers', len(disc), 1)
    db = disc[0][0]
    for mk in ('Peers::mark_fetching_headers_timeout', 'Peers::mark_fetching_txs_timeout'):
        ms = P.call_sites(R, mk)
        ctx.floor('C11.r6', mk + ' in refresh_all_peers', len(ms), 1)
        ctx.ob('C11.r6', R.name, '%s dominates nc.disconnect' % mk, any(cfg.dominates(m[0], db) for m in ms), at=ms[0][1].span)
    src = P.call_sites(R, 'Peers::get_peers_which_have_timeout')
    ctx.floor('C11.r6', 'get_peers_which_have_timeout in refresh_all_peers', len(src), 1)
    # the loop over timed-out peers: the first Iterator::next after the source call; every iteration disconnects
    nexts = [bid for bid, k, t in P.call_keys(R) if k.endswith('Iterator>::next') and cfg.dominates(src[0][0], bid)]
    nexts = [n for n in nexts if db in cfg.reachable_from([n]) and n in cfg.reachable_from(cfg.succ[db])]
    ctx.floor('C11.r6', 'loop over timed-out peers', len(nexts), 1)
    nb = nexts[0]
    r = cfg.reachable_from(cfg.succ[nb], removed_nodes={db})
    # exit of the loop is allowed; cycling back without disconnect is not
    ctx.ob('C11.r6', R.name, 'every timed-out peer reaches nc.disconnect', nb not in r, at=R.blocks[nb].term.span)
    RP = ctx.body('Peers::remove_peer')
    rcfg = P.cfg(RP)
    rem = P.call_sites(RP, lambda k, t: k.startswith('DashMap') and k.endswith('::remove'))
    ctx.floor('C11.r6', 'DashMap::remove in remove_peer', len(rem), 1)
    for mk in ('Peers::mark_fetching_headers_timeout', 'Peers::mark_fetching_txs_timeout'):
        ms = P.call_sites(RP, mk)
        ctx.ob('C11.r6', RP.name, '%s dominates inner.remove' % mk, bool(ms) and any(rcfg.dominates(m[0], rem[0][0]) for m in ms))
    DC = ctx.body('<LightClientProtocol as CKBProtocolHandler>::disconnected::{closure#0}')
    ctx.ob('C11.r6', DC.name, 'disconnected() removes the peer', bool(P.call_sites(DC, 'Peers::remove_peer')))
    T = ctx.body('Peers::get_peers_which_have_timeout')
    srcs = set()
    for c in [T] + P.closures_of(T):
        for _, k, _ in P.call_keys(c):
            if k in ('PeerState::when_sent_request', 'PeerState::get_last_state', 'Peer::get_blocks_proof_request',
                     'Peer::get_blocks_request', 'Peer::get_txs_proof_request'):
                srcs.add(k)
    ctx.ob('C11.r6', T.name, 'timeout scan covers the state request, last state age and the three per-peer requests', len(srcs) == 5, got=sorted(srcs))

    # ---- r10 work lists are fresh (added after seeded C11-5) -------------------------------------
    # The selector predicates (get_peers_which_require_*) pick peers by their CURRENT state, and r3 ties each predicate to the
    # Some-domain of the transition its consumer makes (the `take()`-then-`?` hazard: a rejected transition leaves the peer
    # Initialized, proof discarded).  That agreement only helps if no other state-changing request is sent between computing a
    # list and consuming it: a Ready peer that is in the new-state list AND in a stale new-proof list gets GetLastState
    # (Ready -> RequestNewLastState) and then request_last_state_proof on the wrong state.
    ACTIONS = {'LightClientProtocol::get_last_state': 'Peers::get_peers_which_require_new_state',
               'LightClientProtocol::get_last_state_proof': 'Peers::get_peers_which_require_new_proof'}
    asites = {a: P.call_sites(R, a) for a in ACTIONS}
    for a, sel in ACTIONS.items():
        ss = P.call_sites(R, sel)
        if not ss or not asites[a]:
            ctx.ob('C11.r10', R.name, 'the peers sent %s are selected by %s in refresh_all_peers' % (a.split('::')[-1], sel.split('::')[-1]), False,
                   problem='selector or action call not found', selectors=len(ss), actions=len(asites[a]))
            continue
        for sb, st in ss:
            after_sel = cfg.reachable_from(cfg.succ[sb])
            stale = []
            for other, osites in asites.items():
                if other == a:
                    continue
                for ob_, ot in osites:
                    if ob_ in after_sel and any(ab in cfg.reachable_from(cfg.succ[ob_]) for ab, _ in asites[a]):
                        stale.append(other)
            ctx.ob('C11.r10', R.name, 'no other request is sent between selecting peers with %s and sending them %s (the list is not stale)'
                   % (sel.split('::')[-1], a.split('::')[-1]), not stale, at=st.span, intervening=sorted(set(stale)),
                   failing_history=None if not stale else 'Ready peer with an unproved last state older than the refresh interval is in both lists: GetLastState moves it to '
                   'RequestNewLastState, then request_last_state_proof is rejected on that state and `state.take()?` leaves it Initialized: proof discarded, honest SendLastState banned')

    # ---- r7 status mapping ------------------------------------------------------------------
    status_rules(ctx)
    # reviewed reference of the selector / timeout predicates (engine/census.py)
    from rules import census_fns
    # (F64) a last state carried by a proof response is an update only if it differs from the peer's current one
    census_fns.requires(ctx, 'C11.r8', 'LightClientProtocol::process_last_state', r'^call Peers::update_last_state', r'LastState::is_same_as',
                        'process_last_state does not treat the unchanged last state as an update (timestamp kept, GetLastState not answered)',
                        'peer proves 18, then SendLastState(17); every GetBlocksProof{last_hash=#18} is answered with last_header=#17 only: the "unchanged last state" timer is '
                        'reset each time, the peer is never disconnected and the header is never fetched')
    # ---- every in-flight fetch of the peer is released: the per-hash loops visit all hashes (seeded C11-4: `return` for `continue`) ----
    _nl = 0
    for _fn in ('Peers::mark_fetching_headers_timeout', 'Peers::mark_fetching_txs_timeout', 'Peers::mark_fetching_headers_missing', 'Peers::mark_fetching_txs_missing'):
        if P.has(_fn):
            _nl += ctx.loop_visits_all('C11.r11', ctx.body(_fn), 'the per-hash loop visits every hash of the request (no return inside the loop)',
                                       'request for [h1, h2] where h1 was already answered: the loop returns at h1, h2 stays `fetching` for ever')
    ctx.floor('C11.r11', 'per-hash loops of the fetch bookkeeping', _nl, 2)
    census_fns.run(ctx, 'C11')


def check_downcasts(ctx, body, disp, names):
    """In each arm of the dispatch, any `(_1 as Name)` downcast in the arm's first block must agree
    with the variant index -> name mapping taken from the source declaration."""
    t = body.blocks[disp].term
    bad = []
    for c, tgt in t.cases:
        if c == 'otherwise':
            continue
        blk = body.blocks[tgt]
        for s in blk.stmts:
            for m in re.finditer(r'\(\(?\*?_1\)? as (\w+)\)', s.text):
                if c >= len(names) or m.group(1) != names[c]:
                    bad.append((c, m.group(1)))
    if bad:
        raise Inconclusive('variant index/name mismatch in %s: %r' % (body.name, bad))


def status_rules(ctx):
    P = ctx.prog
    src = open(os.path.join(P.repo, 'src/protocols/status.rs'), errors='replace').read()
    m = re.search(r'pub enum StatusCode \{(.*?)\n\}', src, flags=re.S)
    if not m:
        raise Inconclusive('ANCHOR-MISSING: enum StatusCode')
    codes = dict((n, int(v)) for n, v in re.findall(r'^\s*(\w+)\s*=\s*(\d+)\s*,', m.group(1), flags=re.M))
    ctx.floor('C11.r7', 'StatusCode variants', len(codes), 20)
    B = ctx.body('Status::should_ban')
    proms = [b for b in P.bodies if b.name.startswith('Status::should_ban::promoted[') and 'Range<u16>' in b.ret]
    consts = []
    for b in proms:
        for blk in b.blocks.values():
            for s in blk.stmts:
                m2 = re.search(r'Range::<u16> \{ start: const (\d+)_u16, end: const (\d+)_u16 \}', s.text)
                if m2:
                    consts = [int(m2.group(1)), int(m2.group(2))]
    if len(consts) != 2 or not P.call_sites(B, lambda k, t: k.startswith('Range') and k.endswith('::contains')):
        raise Inconclusive('Status::should_ban: expected `(lo..hi).contains(&code)` with constant bounds, got %r' % consts)
    lo, hi = consts
    ctx.ob('C11.r7', B.name, 'ban range is [400,500)', (lo, hi) == (400, 500), got=[lo, hi])
    for n in ('OK', 'RequireRecheck', 'Ignore', 'InternalError', 'Network'):
        if n not in codes:
            raise Inconclusive('ANCHOR-MISSING: StatusCode::%s' % n)
        ctx.ob('C11.r7', 'StatusCode', '%s (%d) is outside the ban range' % (n, codes[n]), not (lo <= codes[n] < hi))
    for n, v in sorted(codes.items()):
        if 400 <= v < 500:
            ctx.ob('C11.r7', 'StatusCode', 'remote error %s (%d) is inside the ban range' % (n, v), lo <= v < hi)
    # every handler forwards the status of try_process to Status::process
    for h in ('LightClientProtocol', 'FilterProtocol'):
        R = ctx.body('<%s as CKBProtocolHandler>::received::{closure#0}' % h)
        tp = P.call_sites(R, '%s::try_process' % h)
        pr = P.call_sites(R, 'Status::process')
        ctx.floor('C11.r7', 'try_process/process in %s::received' % h, min(len(tp), len(pr)), 1)
        cfg = P.cfg(R)
        ctx.ob('C11.r7', R.name, 'Status::process post-dominates try_process', cfg.postdominates(pr[0][0], tp[0][0]), at=pr[0][1].span)
        # the processed status is the one returned by try_process
        from engine.defuse import DefUse
        du = DefUse(R)
        ctx.ob('C11.r7', R.name, 'the processed status derives from try_process', du.from_call(pr[0][1].args[0], '%s::try_process' % h))
