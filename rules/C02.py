"""C02 — only data committed by a proven header is indexed or served as fetched (DESIGN §5 C02)."""
import re
from engine.rules import Inconclusive, place_switch_guard, atxt
from engine.defuse import DefUse
from engine import mir

EXPLANATION = (
    'All-paths rules over MIR: (r1) who-may-call for the functions that persist fetched headers/transactions, mark '
    'matched blocks proved, and index a block body; the set of functions that put BlockHash/BlockNumber/TxHash keys; '
    '(r2) in the SendBlocksProof / SendTransactionsProof processes every persisting sink is reachable only in worlds '
    'where the request exists, the last hash equals the requested one, the returned hashes equal the requested ones, '
    'PoW, MMR proof (and for v1 the extra hash, for transactions the Merkle root against transactions_root) accepted; '
    '(r3) Peers::add_block stores a body only under the proved flag; (r4) a downloaded block body reaches add_block / '
    'filter_block only after its transactions root and extra hash were recomputed from the body and compared with the header.')
NOT_DECIDED = 'That the MMR / Merkle arithmetic itself is right (trusted libraries); which peer serves which request.'

BP = 'SendBlocksProofProcess::execute_internally'
TP = 'SendTransactionsProofProcess::execute_internally'
RECV = '<SyncProtocol as CKBProtocolHandler>::received'


def is_ne(k, t):
    return k in ('<Byte32 as PartialEq>::ne',)


def witnesses_authenticated(ctx, rule):
    P = ctx.prog
    T = ctx.body('SendTransactionsProofProcess::execute_internally')
    bodies = [T] + P.closures_of(T)
    wh = [k for b in bodies for _, k, t in P.call_keys(b) if k.endswith('calc_witness_hash') or k.endswith('calc_witnesses_root')]
    wr = [t for b in bodies for _, k, t in P.call_keys(b) if k.endswith('FilteredBlock::witnesses_root') or k.endswith('FilteredBlockReader::witnesses_root')]
    ctx.floor(rule, 'uses of FilteredBlock::witnesses_root in the transactions proof handler', len(wr), 1)
    ctx.ob(rule, T.name, 'the witnesses of a stored fetched transaction are authenticated against the witnesses root of its block', bool(wh),
           failing_history=None if wh else 'honest SendTransactionsProof for a requested committed transaction whose `witnesses` are replaced by arbitrary bytes (tx hash '
           'unchanged): accepted, stored by add_fetched_tx and served by get_transaction / fetch_transaction as the committed transaction')


def run(ctx):
    P = ctx.prog
    ctx.explanation, ctx.not_decided = EXPLANATION, NOT_DECIDED

    # ---- r1 -------------------------------------------------------------------------
    ctx.only_callers('C02.r1', 'Storage::add_fetched_header', {BP}, 1)
    ctx.only_callers('C02.r1', 'Storage::add_fetched_tx', {TP}, 1)
    ctx.only_callers('C02.r1', 'Peers::mark_matched_blocks_proved', {BP}, 1)
    ctx.only_callers('C02.r1', 'Storage::filter_block', {RECV, 'Storage::update_filter_scripts', 'Storage::init_genesis_block'}, 2)  # init: genesis for scripts at block 0 after a set_scripts that died early (F49)
    ctx.only_callers('C02.r1', 'Peers::add_block', {RECV}, 1)
    ctx.only_callers('C02.r1', 'Peers::update_blocks_request', {BP, 'prove_or_download_matched_blocks'}, 1)
    writers = key_family_writers(P, ('BlockHash', 'BlockNumber', 'TxHash'))
    allowed = {'Storage::init_genesis_block', 'Storage::add_fetched_header', 'Storage::add_fetched_tx', 'Storage::filter_block'}
    ctx.floor('C02.r1', 'functions that put Key::BlockHash/BlockNumber/TxHash', len(writers), 4)
    for w in sorted(writers):
        ctx.ob('C02.r1', w, 'puts a BlockHash/BlockNumber/TxHash record', w in allowed, allowed=sorted(allowed), families=sorted(writers[w]))

    # ---- r2 blocks proof ----------------------------------------------------------------
    F = ctx.body(BP)
    du = DefUse(F)
    sinks = (ctx.sites(F, 'Storage::add_fetched_header', 1) + ctx.sites(F, 'Peers::mark_matched_blocks_proved', 1)
             + ctx.sites(F, 'Peers::update_blocks_request', 1))
    common_guards(ctx, 'C02.r2', F, du, sinks, 'Peer::get_blocks_proof_request', 'BlocksProofRequest::last_hash',
                  'BlocksProofRequest::check_block_hashes')

    # ---- r2 transactions proof ------------------------------------------------------------
    T = ctx.body(TP)
    du = DefUse(T)
    tsinks = ctx.sites(T, 'Storage::add_fetched_tx', 1)
    common_guards(ctx, 'C02.r2', T, du, tsinks, 'Peer::get_txs_proof_request', 'TransactionsProofRequest::last_hash',
                  'TransactionsProofRequest::check_tx_hashes')
    # per-block Merkle guard: Option::map(closure containing merkle_root) == Some(true)
    clos = [c for c in P.closures_of(T, transitive=False) if P.call_sites(c, lambda k, t: k.endswith('merkle_root'))]
    ctx.floor('C02.r2', 'closure comparing transactions_root with merkle_root', len(clos), 1)
    c = ctx.fn(clos[0])
    ctag = re.search(r'\[closure@([^\]]+)\]', c.sig_args).group(1)

    def is_root_map(k, t):
        return k.startswith('Option::map') and ('closure@' + ctag) in t.callee
    maps = P.call_sites(T, is_root_map)
    ctx.floor('C02.r2', 'Option::map over the merkle proof root result', len(maps), 1)
    ctx.guard('C02.r2', T, is_root_map, 'Some(true)', tsinks, unconditional=False, gname='strict_merkle_proof_root(..).map(root == merkle_root)')
    # the Option that is mapped comes from MerkleProof::root
    mt = maps[0][1]
    # F31/F33: merkle_cbt's MerkleProof::root drops a node without sibling or lemma (a foreign leaf rides on the
    # proof of a committed one) and does unchecked index arithmetic: the root must come from the strict local one
    ctx.ob('C02.r2', T.name, 'mapped Option derives from the strict merkle proof root (not merkle_cbt MerkleProof::root)',
           du.from_call(mt.args[0], lambda k: k.endswith('strict_merkle_proof_root'))
           and not du.from_call(mt.args[0], lambda k: k.endswith('MerkleProof::root')), at=mt.span)
    # every loop iteration passes the map: the filtered_blocks `next` cannot cycle around it
    cfg = P.cfg(T)
    # closure result is an eq between transactions_root and merkle_root
    cdu = DefUse(c)
    eqs = P.call_sites(c, lambda k, t: k in ('<Byte32 as PartialEq>::eq',))
    ctx.floor('C02.r2', 'Byte32 eq in the Merkle closure', len(eqs), 1)
    eb, et = eqs[0]
    o = cdu.origins(et.args[0], stop_at_calls=False) | cdu.origins(et.args[1], stop_at_calls=False)
    keys = {x[1] for x in o if x[0] == 'call'}
    ctx.ob('C02.r2', c.name, 'eq compares RawHeader::transactions_root with merkle_root(..)',
           any(k.endswith('RawHeader::transactions_root') for k in keys) and any(k.endswith('merkle_root') for k in keys),
           at=et.span)
    ctx.ob('C02.r2', c.name, 'closure returns the eq result', et.dest.strip() == '_0' or
           any(s.kind == 'assign' and s.lhs.strip() == '_0' and base_of(s.rhs) == base_of(et.dest) for b in c.blocks.values() for s in b.stmts),
           at=et.span)

    # ---- r3 add_block only under the proved flag -----------------------------------------------
    A = ctx.body('Peers::add_block')
    cl = [x for x in P.closures_of(A) if any(s.kind == 'assign' and re.search(r'\.1: std::option::Option<ckb_types::packed::Block>\) = ', s.text)
                                             for b in x.blocks.values() if not b.cleanup for s in b.stmts)]
    if not cl:
        # the reviewed shape (store inside the get_mut(..).map closure, under `if value.0`) is gone: report it; C02.ref describes what add_block does now
        ctx.ob('C02.r3', A.name, 'body stored only on the proved==true edge', False, problem='no store of Some(block) under the proved flag found in Peers::add_block')
    for x in cl:
        ctx.fn(x)
        sb = [bid for bid, b in x.blocks.items() if not b.cleanup and any(
            s.kind == 'assign' and re.search(r'\.1: std::option::Option<ckb_types::packed::Block>\) = ', s.text) for s in b.stmts)]
        ok, nd = place_switch_guard(P, x, r'\(\*_\d+\)\.0: bool\)', sb, accept_true=True)
        ctx.ob('C02.r3', x.name, 'body stored only on the proved==true edge', ok and nd >= 1, decisions=nd)
    # stores into matched_blocks values elsewhere: only Peers functions
    # ---- r4 body commitment ------------------------------------------------------------------
    body_commitment(ctx)
    proved_data_provenance(ctx)
    # r6 (F30): the MMR library sorts the leaves by position and silently drops all but one leaf per position, so the headers
    # handed to MerkleProof::verify must be at pairwise distinct heights — otherwise an unproven header rides on the proof of a
    # proven header of the same height
    from engine import census
    V = ctx.body('verify_mmr_proof')
    act, _ = census.compute(P, 'verify_mmr_proof')
    uniq = [e for e in act if e['cls'] == 'reject' and any('slice::windows' in a and 'HeaderView::number' in a for a in e['trigger'])]
    ctx.ob('C02.r6', V.name, 'headers given to the MMR verification are rejected unless their block numbers are pairwise distinct', bool(uniq),
           failing_history=None if uniq else 'request [A, B]: A committed in real block R at height N, B only in a forged block F at height N (easy compact target); response '
           '[R{A}, F{B}] + the genuine proof for R: the library drops F\'s leaf, the proof verifies, B is stored as committed')
    # F44: transactions_root = merkle_root([raw_transactions_root, witnesses_root]); the CBMT proof covers the tx hashes (raw part),
    # witnesses_root is used as the peer gives it.  The stored / served transaction includes its witnesses, so they are authenticated
    # only if the witness hashes of the transactions are tied to witnesses_root (shared with C16)
    witnesses_authenticated(ctx, 'C02.r2')
    # r7 (F42): a matched block is downloaded and indexed without a blocks proof when its record says `proved`.  The flag is
    # persisted; it is only written as true by BlockFiltersProcess for the last header of the prove state, and a record that
    # commit_prove_state keeps across a fork is rewritten with every flag false (its blocks may be off the new chain)
    ctx.only_callers('C02.r7', 'Storage::add_matched_blocks', {'BlockFiltersProcess::execute', 'LightClientProtocol::commit_prove_state'}, 1)
    CP = ctx.body('LightClientProtocol::commit_prove_state')
    rewrites = P.call_sites(CP, 'Storage::add_matched_blocks')
    cleared = [c for c in P.closures_of(CP, transitive=False)
               if any(st.kind == 'assign' and st.lhs.strip() == '_0' and re.match(r'^\(.*, const false\)$', st.rhs.strip())
                      for blk in c.blocks.values() if not blk.cleanup for st in blk.stmts)]
    cdu = DefUse(CP)
    ok = False
    for bid, t in rewrites:
        tags = [re.search(r'\[closure@([^\]]+)\]', c.sig_args).group(1) for c in cleared]
        org = cdu.origins(t.args[3], stop_at_calls=False)
        maps = [o for o in org if o[0] == 'call' and o[1].endswith('Iterator>::map')]
        for o in maps:
            mt = CP.blocks[o[2]].term
            if any(('closure@' + g) in mt.callee for g in tags) and cdu.from_call(mt.args[0], 'Storage::get_latest_matched_blocks'):
                ok = True
    ctx.ob('C02.r7', CP.name, 'a matched-blocks record kept across a fork is rewritten with all proved flags false', ok,
           rewrites=len(rewrites), failing_history=None if ok else 'tip T matched and recorded (T, proved=true), block withheld; 1-block reorg replaces T; new '
           'last state proved (fork point below T): the kept record still says proved, SendBlock(T) is accepted without proof and T is indexed')
    if rewrites:
        # ... and only on the fork path, before the rollback and the new last state
        ctx.ob('C02.r7', CP.name, 'the rewrite precedes rollback_to_block on every path',
               all(any(P.cfg(CP).reachable_from([bid]).__contains__(rb) for rb, _ in P.call_sites(CP, 'Storage::rollback_to_block')) for bid, _ in rewrites))
    # r8 (F77): a blocks / transactions proof is requested against the stored tip and stays outstanding across a fork: a (valid)
    # response for the replaced tip must not be stored over the records of the proven chain
    for hname, sink in (('SendBlocksProofProcess::execute_internally', 'Storage::add_fetched_header'), ('SendTransactionsProofProcess::execute_internally', 'Storage::add_fetched_tx')):
        Hh = ctx.body(hname)
        rep = P.call_sites(Hh, 'LightClientProtocol::is_replaced_header')
        ctx.ob('C02.r8', hname, 'a proof response whose last header was replaced in the stored chain is dropped before anything is stored', bool(rep),
               failing_history=None if rep else 'GetTransactionsProof(last = A24) outstanding; fork to B; the held-back valid response stores tx x as (23, u32::MAX) over the indexed record '
               '(24, real index): the cell x spends later stays live; get_transaction names the abandoned block')
        if rep:
            ctx.guard('C02.r8', Hh, 'LightClientProtocol::is_replaced_header', 'false', ctx.sites(Hh, sink, 1), unconditional=True)
    # reviewed reference of the checker functions' decision structure (engine/census.py)
    from rules import census_fns
    census_fns.run(ctx, 'C02')


def base_of(txt):
    m = re.search(r'_(\d+)', txt or '')
    return m.group(1) if m else None


def common_guards(ctx, rule, F, du, sinks, get_req, last_hash_fn, check_hashes):
    P = ctx.prog
    ctx.guard(rule, F, 'LightClientProtocol::get_peer', 'Ok', sinks)
    ctx.guard(rule, F, get_req, 'Some', sinks)
    # last-hash equality: the `ne` whose operand derives from the request's last_hash()
    def lh(b, t):
        return du.from_call(t.args[0], last_hash_fn) or du.from_call(t.args[1], last_hash_fn)
    ctx.guard(rule, F, is_ne, 'false', sinks, gname='request.last_hash() != response.last_header.hash()', which=lh)
    ctx.guard(rule, F, check_hashes, 'true', sinks)
    ctx.guard(rule, F, 'LightClientProtocol::check_pow_for_headers', 'Ok', sinks)
    ctx.guard(rule, F, 'verify_mmr_proof', 'Ok', sinks)
    ctx.guard(rule, F, 'verify_extra_hash', 'Ok', sinks, unconditional=False)


KEY_AGG_RE = re.compile(r'storage::Key::<[^>]*>::(\w+)\(')


def key_family_writers(P, families):
    """top-level fn -> set of Key families constructed in it (or its closures) that has a put."""
    out = {}
    for b in P.bodies:
        fams = set()
        for blk in b.blocks.values():
            if blk.cleanup:
                continue
            for s in blk.stmts:
                if s.kind == 'assign':
                    m = KEY_AGG_RE.search(s.rhs)
                    if m and m.group(1) in families:
                        fams.add(m.group(1))
        if not fams:
            continue
        top = P.parent_fn(b)
        out.setdefault(top.name, set()).update(fams)
    res = {}
    for name, fams in out.items():
        top = P.by_name[name][0]
        keys = [k for _, k, _ in P.call_keys(top)]
        for c in P.closures_of(top):
            keys += [k for _, k, _ in P.call_keys(c)]
        if any(k.endswith('>::put') or k in ('Batch::put', 'Batch::put_kv') for k in keys):
            res[name] = fams
    return res


def body_commitment(ctx):
    """r4: in SyncProtocol::received the downloaded block reaches Peers::add_block only after a
    comparison of the header's transactions_root with a root recomputed from the body, and of the
    header's extra_hash with one recomputed from uncles/extension."""
    P = ctx.prog
    R = ctx.body(RECV + '::{closure#0}')
    sinks = ctx.sites(R, 'Peers::add_block', 1)
    for what, pats in (('transactions root', ('calc_transactions_root',)),
                       ('extra hash', ('calc_extra_hash', 'calc_uncles_hash'))):
        found = find_commitment_guards(ctx, R, pats)
        if not found:
            ctx.ob('C02.r4', R.name, 'block body %s recomputed and compared with the header before Peers::add_block' % what,
                   False, at=sinks[0][1], detail='no comparison against a %s recomputed from the body exists on any path' % what)
            continue
        for (gpred, accept, gname) in found:
            ctx.guard('C02.r4', R, gpred, accept, sinks, unconditional=True, gname=gname)


def find_commitment_guards(ctx, R, pats):
    """Guards in R: (a) a Byte32 eq/ne whose operand derives from a call named in pats; (b) a call to
    a crate-local helper whose body contains such a comparison and whose success return is guarded
    by it (guard summary, depth 1)."""
    P = ctx.prog
    out = []
    du = DefUse(R)

    def has_pat(k):
        return any(k.endswith(p) for p in pats)
    for bid, k, t in P.call_keys(R):
        if k in ('<Byte32 as PartialEq>::eq', '<Byte32 as PartialEq>::ne') and len(t.args) == 2:
            if du.from_call(t.args[0], has_pat) or du.from_call(t.args[1], has_pat):
                acc = 'true' if k.endswith('eq') else 'false'
                out.append((lambda kk, tt, _b=bid: tt is R.blocks[_b].term, acc, 'header root %s recomputed(%s)' % ('==' if acc == 'true' else '!=', pats[0])))
    for bid, k, t in P.call_keys(R):
        if not P.has(k) or k in ('Peers::add_block',):
            continue
        try:
            H = P.body(k)
        except Exception:
            continue
        hdu = DefUse(H)
        for hb, hk, ht in P.call_keys(H):
            if hk in ('<Byte32 as PartialEq>::eq', '<Byte32 as PartialEq>::ne') and len(ht.args) == 2 and (
                    hdu.from_call(ht.args[0], has_pat) or hdu.from_call(ht.args[1], has_pat)):
                acc = 'true' if hk.endswith('eq') else 'false'
                ret = H.ret
                hacc = 'true' if ret == 'bool' else ('Ok' if 'Result<' in ret else ('Some' if 'Option<' in ret else None))
                if hacc is None:
                    continue
                ctx.fn(H)
                succ = ctx.success_sinks(H)
                ok = ctx.guard('C02.r4', H, lambda kk, tt, _b=hb: tt is H.blocks[_b].term, acc, succ,
                               gname='root comparison in helper %s' % k)
                if ok:
                    out.append((k, hacc, 'helper %s (summarised: succeeds only if %s matches)' % (k, pats[0])))
    return out


def proved_data_provenance(ctx, rule='C02.r5'):
    """r5: what is marked proved / requested for download / persisted derives from the VERIFIED response data (the headers that
    went through the PoW and MMR checks, the filtered blocks that went through the Merkle check) — never from the request, whose
    hashes also include the ones the peer reported missing."""
    P = ctx.prog
    F = ctx.body(BP)
    du = DefUse(F)

    def calls(x):
        return {o[1] for o in du.origins(x, stop_at_calls=False) if o[0] == 'call'}
    for fn, argi, what in (('Peers::mark_matched_blocks_proved', 2, 'hashes marked proved'),
                           ('Peers::update_blocks_request', 2, 'hashes requested for download'),
                           ('Storage::add_fetched_header', 1, 'header persisted as fetched')):
        for b, t in P.call_sites(F, fn):
            cs = calls(t.args[argi])
            from_resp = any(k.endswith('Reader::headers') or k.endswith('SendBlocksProofReader::headers') for k in cs)
            from_req = any(k.endswith('BlocksProofRequest::block_hashes') for k in cs)
            ctx.ob(rule, F.name, '%s derive from the verified response headers, not from the request' % what, from_resp and not from_req, at=t.span,
                   from_response_headers=from_resp, from_request=from_req)
    T = ctx.body(TP)
    tdu = DefUse(T)
    for b, t in P.call_sites(T, 'Storage::add_fetched_tx'):
        cs = {o[1] for a in t.args[1:] for o in tdu.origins(a, stop_at_calls=False) if o[0] == 'call'}
        from_resp = any(k.endswith('Reader::filtered_blocks') for k in cs)
        from_req = any(k.endswith('TransactionsProofRequest::tx_hashes') for k in cs)
        ctx.ob(rule, T.name, 'the persisted transaction and header derive from the verified filtered blocks, not from the request', from_resp and not from_req, at=t.span)
