"""C18 — send_transaction admits only verifiable transactions; relays once per peer (DESIGN §5 C18)."""
import re
from engine.rules import Inconclusive
from engine.defuse import DefUse

EXPLANATION = (
    'All-paths rules over MIR: (r1) PendingTxs::push is reachable only after verify_tx returned Ok and is called only by '
    'send_transaction; (r2) verify_tx / ContextualTransactionVerifier::verify / resolve_tx can succeed only after the '
    'non-contextual, resolution (every cell Live, no repeated input), time-relative and capacity verifiers accepted and the '
    'script verifier\'s result is the returned value; (r3) the pool insert is followed on every path by the size test whose '
    'true edge evicts the front, and nothing else grows the pool; (r4) a hash is produced for broadcast only on the '
    'announced-set insert == true edge, every RelayTransactionHashes is built from that function, every HashSet<PeerId> call site '
    'is the creation in push or that insert (grow-only), and push re-uses the set of an entry it replaces; (r5) get_transaction '
    'reports pending only from a pool hit after a store miss.')
NOT_DECIDED = 'Script / capacity / since verification itself (ckb-verification, trusted); cycles arithmetic.'

SEND = '<TransactionRpcImpl as TransactionRpc>::send_transaction'
GETTX = '<TransactionRpcImpl as TransactionRpc>::get_transaction'


def run(ctx):
    P = ctx.prog
    ctx.explanation, ctx.not_decided = EXPLANATION, NOT_DECIDED
    # r1
    ctx.only_callers('C18.r1', 'PendingTxs::push', {SEND}, 1)
    F = ctx.body(SEND)
    push = ctx.sites(F, 'PendingTxs::push', 1)
    ctx.guard('C18.r1', F, 'verify_tx', 'Ok', push)
    # provenance: the pooled transaction is the verified one and the recorded cycles are the verifier's result
    fdu = DefUse(F)
    pt = F.blocks[push[0][0]].term
    vt = P.call_sites(F, 'verify_tx')[0][1]
    ctx.ob('C18.r1', F.name, 'the cycles stored with a pooled transaction are the result of verify_tx', fdu.from_call(pt.args[2], 'verify_tx'), at=pt.span)
    txl = F.debug.get('tx')
    def srcs(op):
        out = set()
        stack = [int(x) for x in re.findall(r'_(\d+)', op)]
        while stack:
            l = stack.pop()
            if l in out:
                continue
            out.add(l)
            for kind, bid, obj in fdu.defs.get(l, []):
                if kind == 'assign':
                    stack += [int(x) for x in re.findall(r'_(\d+)', obj.rhs)]
                elif kind == 'call' and (obj.callee.endswith('::clone') or 'Clone>::clone' in obj.callee or 'Deref' in obj.callee):
                    stack += [int(x) for x in re.findall(r'_(\d+)', obj.args[0])]
        return {'_%d' % x for x in out}
    ctx.ob('C18.r1', F.name, 'the pooled transaction is the one that was verified', bool(txl) and txl in srcs(pt.args[1]) and txl in srcs(vt.args[0]), at=pt.span)
    E = ctx.body('<ChainRpcImpl as ChainRpc>::estimate_cycles')
    ctx.ob('C18.r1', E.name, 'estimate_cycles cannot reach the pool', 'PendingTxs::push' not in P.transitive_callees(E.name))
    ctx.ob('C18.r1', E.name, 'estimate_cycles verifies through verify_tx', bool(P.call_sites(E, 'verify_tx')))

    # r2
    V = ctx.body('verify_tx')
    tail = [(b, t.span, 'return ContextualTransactionVerifier::verify') for b, t in P.call_sites(V, 'ContextualTransactionVerifier::verify')
            if t.dest and t.dest.strip() == '_0']
    succ = ctx.success_sinks(V)
    if tail:
        ctx.ob('C18.r2', V.name, 'the only success-capable return is the contextual verifier result',
               all(lbl.startswith('return <call ContextualTransactionVerifier::verify') for _, _, lbl in succ), returns=[l for _, _, l in succ])
    else:
        # later shape (F82): `let cycles = Contextual..verify(..)?; DaoScriptSizeVerifier..verify()?; Ok(cycles)`: every
        # success-capable return is an Ok whose payload is the contextual verifier's Ok value, behind both verifiers
        vdu = DefUse(V)
        cv = P.call_sites(V, 'ContextualTransactionVerifier::verify')
        ctx.floor('C18.r2', 'call of the contextual verifier in verify_tx', len(cv), 1)
        oks = [(bid, sp, lbl) for bid, sp, lbl in succ]
        payload_ok = bool(oks)
        for bid, sp, lbl in oks:
            blk = V.blocks[bid]
            st = [s_ for s_ in blk.stmts if s_.kind == 'assign' and s_.lhs.strip() == '_0']
            payload_ok &= bool(st) and all(any(o[0] == 'call' and o[1] == 'ContextualTransactionVerifier::verify' for o in vdu.origins(a, stop_at_calls=False))
                                           for s_ in st for a in re.findall(r'(?:move |copy )(_\d+)', s_.rhs))
        ctx.ob('C18.r2', V.name, 'the only success-capable return carries the cycles of the contextual verifier', payload_ok, returns=[l for _, _, l in succ])
        tail = oks
        ctx.guard('C18.r2', V, 'ContextualTransactionVerifier::verify', 'Ok', tail)
    # F82: the DAO lock-size rule of the full nodes (tx-pool and block verification) is part of the verification
    dao = P.call_sites(V, lambda k, t: k.endswith('DaoScriptSizeVerifier::verify'))
    ctx.ob('C18.r2', V.name, 'the DAO script size verifier runs before a transaction is accepted', bool(dao),
           failing_history=None if dao else 'a phase-1 DAO withdrawal whose withdrawing cell has a longer lock than the deposit cell is accepted and pending; full nodes answer DaoLockSizeMismatch')
    if dao:
        ctx.guard('C18.r2', V, lambda k, t: k.endswith('DaoScriptSizeVerifier::verify'), 'Ok', tail, gname='DaoScriptSizeVerifier::verify')
    # F81: header deps are resolved
    Rz = ctx.body('resolve_tx')
    hd = [t for _, k, t in P.call_keys(Rz) if k.endswith('header_deps_iter')]
    gh = [t for c in [Rz] + P.closures_of(Rz) for _, k, t in P.call_keys(c) if k.endswith('HeaderProvider>::get_header')]
    ctx.ob('C18.r2', Rz.name, 'every header dep is looked up in the header provider (unknown -> InvalidHeader)', bool(hd) and bool(gh),
           failing_history=None if (hd and gh) else 'a valid transaction with an added header dep 0x..deadbeef which no script loads: accepted, stored as pending and relayed; full nodes reject it (InvalidHeader)')
    ctx.guard('C18.r2', V, lambda k, t: k.endswith('NonContextualTransactionVerifier::verify'), 'Ok', tail, gname='NonContextualTransactionVerifier::verify')
    ctx.guard('C18.r2', V, 'resolve_tx', 'Ok', tail)
    C = ctx.body('ContextualTransactionVerifier::verify')
    ctail = [(b, t.span, 'return ScriptVerifier::verify') for b, t in P.call_sites(C, lambda k, t: k.endswith('ScriptVerifier::verify'))
             if t.dest and t.dest.strip() == '_0']
    ctx.floor('C18.r2', 'ContextualTransactionVerifier::verify returns the script verifier result', len(ctail), 1)
    ctx.ob('C18.r2', C.name, 'the only success-capable return is the script verifier result',
           all('ScriptVerifier::verify' in lbl for _, _, lbl in ctx.success_sinks(C)))
    ctx.guard('C18.r2', C, lambda k, t: k.endswith('TimeRelativeTransactionVerifier::verify'), 'Ok', ctail, gname='TimeRelativeTransactionVerifier::verify')
    ctx.guard('C18.r2', C, lambda k, t: k.endswith('CapacityVerifier::verify'), 'Ok', ctail, gname='CapacityVerifier::verify')
    # F38: ckb_verification's ContextualTransactionVerifier = compatible + time_relative + capacity + script; the local copy
    # must keep the hardfork compatibility check (an output lock with hash type data2 before ckb2023 is seen by nothing else)
    comp = P.call_sites(C, lambda k, t: k.endswith('CompatibleVerifier::verify'))
    ctx.ob('C18.r2', C.name, 'the hardfork compatibility verifier is part of the contextual verification', bool(comp),
           failing_history=None if comp else 'consensus without ckb2023, tip epoch 0: a transaction with an output whose lock has hash type data2 is accepted by send_transaction')
    if comp:
        ctx.guard('C18.r2', C, lambda k, t: k.endswith('CompatibleVerifier::verify'), 'Ok', ctail, gname='CompatibleVerifier::verify')
    # F39: a since with the timestamp metric needs the median time of the blocks from the tip backwards; the upstream verifier
    # panics ('parent header exist') when one of them cannot be resolved, so (a) the tip header itself must be resolvable by the
    # header provider and (b) verify_tx must fail with an error, before the verifier runs, when a required header is unknown
    GH = ctx.body('<StorageWithChainData as HeaderProvider>::get_header')
    tipfb = any(P.call_sites(c, 'Storage::get_last_state') for c in [GH] + P.closures_of(GH))
    ctx.ob('C18.r2', GH.name, 'the stored tip header is resolvable by the header provider of the verifiers', tipfb,
           failing_history=None if tipfb else 'synced client (tip 100, last n headers 1..=99): send_transaction with since = 0x4000_0000_0000_0000 | t panics in block_median_time: '
           'the walk starts at the tip, which is in no prove state last-n list and not a stored block')
    from engine import census
    act, _ = census.compute(P, 'verify_tx', closures=True)
    pre = [e for e in act if e['cls'] == 'reject' and any('get_header_fields' in a and re.search(r'is (None|Break)$', a.rstrip()) for a in e['trigger'])]
    ctx.ob('C18.r2', V.name, 'an unknown header on the median-time walk is an error before the contextual verifier runs', bool(pre))
    # (F15d, known: the C18 face of F15b) a cell is resolved through the TxHash record of its transaction, which a fork rollback
    # does not remove: outputs of transactions of abandoned blocks are still `Live` for the verification
    from rules.C04 import key_ops as _key_ops
    _fo, _ = _key_ops(ctx, 'Storage::filter_block')
    _ro, _ = _key_ops(ctx, 'Storage::rollback_to_block')
    ctx.ob('C18.r2', 'Storage::rollback_to_block', 'the transaction records of rolled-back blocks are removed (a cell is resolved only from the stored chain)',
           'TxHash' in _ro['delete'] or 'TxHash' not in _fo['put'],
           failing_history='tx T indexed in block 2; rollback_to_block(2): get_cells no longer lists its output, but send_transaction accepts and stores a child spending it, and a '
           'resubmitted T is reported `committed` in the rolled-back block instead of `pending`')
    R = ctx.body('resolve_tx')
    ctx.loop_guard('C18.r2', R, lambda k, t: k.startswith('HashSet') and k.endswith('::insert'), 'true', gname='current_inputs.insert')
    # resolve_cell closure: Ok(cell_meta) from the provider only in the Live arm
    rc = [c for c in P.closures_of(R) if P.call_sites(c, lambda k, t: k.endswith('CellProvider>::cell'))]
    ctx.floor('C18.r2', 'resolve_cell closure', len(rc), 1)
    c = ctx.fn(rc[0])
    cell_call = P.call_sites(c, lambda k, t: k.endswith('CellProvider>::cell'))[0]
    cfg = P.cfg(c)
    dest = cell_call[1].dest.strip()
    sw = None
    for bid in sorted(cfg.reachable()):
        blk = c.blocks[bid]
        if blk.term.kind == 'switchInt' and any(s.kind == 'assign' and re.match(r'^discriminant\(%s\)$' % re.escape(dest), s.rhs.strip())
                                                and s.lhs.strip() == blk.term.discr.replace('move ', '').strip() for s in blk.stmts):
            sw = bid
    if sw is None:
        raise Inconclusive('resolve_cell: no match on the CellStatus returned by swc.cell')
    ok_blocks = [b for b, _, lbl in ctx.success_sinks(c)]
    n = 0
    for cval, tgt in c.blocks[sw].term.cases:
        reach = cfg.reachable_from([tgt], removed_nodes={sw})
        arm_txt = ' '.join(s.text for b in reach for s in c.blocks[b].stmts)
        is_live = bool(re.search(r'\(%s as Live\)' % re.escape(dest), arm_txt))
        reaches_ok = any(b in reach for b in ok_blocks)
        if c.blocks[tgt].term.kind == 'unreachable':
            continue
        n += 1
        ctx.ob('C18.r2', c.name, 'CellStatus arm %s: Ok only for Live' % cval, is_live or not reaches_ok, live=is_live, reaches_ok=reaches_ok)
    ctx.floor('C18.r2', 'CellStatus arms', n, 2)

    # r3 bounded pool
    B = ctx.body('PendingTxs::push')
    cfg = P.cfg(B)
    ins = P.call_sites(B, lambda k, t: k.startswith('LinkedHashMap') and k.endswith('::insert'))
    ln = P.call_sites(B, lambda k, t: k.startswith('LinkedHashMap') and k.endswith('::len'))
    pop = P.call_sites(B, lambda k, t: k.startswith('LinkedHashMap') and k.endswith('::pop_front'))
    ctx.floor('C18.r3', 'LinkedHashMap::insert in PendingTxs::push', len(ins), 1)
    if not ln or not pop:
        ctx.ob('C18.r3', B.name, 'len() > limit true-edge evicts with pop_front', False, at=ins[0][1].span,
               detail='insert is not followed by a size test / pop_front', len_calls=len(ln), pop_front_calls=len(pop))
    else:
        ctx.ob('C18.r3', B.name, 'size test post-dominates insert', cfg.postdominates(ln[0][0], ins[0][0]) and cfg.dominates(ins[0][0], ln[0][0]))
        du = DefUse(B)
        # the switch that decides pop_front
        dec = [bid for bid in cfg.reachable() if B.blocks[bid].term.kind == 'switchInt' and cfg.dominates(ln[0][0], bid) and cfg.dominates(bid, pop[0][0])]
        good = False
        for bid in dec:
            t = B.blocks[bid].term
            org = du.origins(t.discr, stop_at_calls=False)
            has_len = any(o[0] == 'call' and o[1].endswith('::len') for o in org)
            # `len > limit` or, flipped, `limit < len`: the length is the greater side
            has_gt = False
            for (cb, ci, op, a, bb, st) in ctx.cmp_stmts(B):
                if op not in ('Gt', 'Lt') or ('op', op, cb) not in org:
                    continue
                big = a if op == 'Gt' else bb
                has_gt |= any(o[0] == 'call' and o[1].endswith('::len') for o in du.origins(big, stop_at_calls=False))
            true_tgts = [tg for cv, tg in t.cases if cv == 'otherwise' or (isinstance(cv, int) and cv != 0)]
            to_pop = any(pop[0][0] in cfg.reachable_from([tg]) for tg in true_tgts)
            false_tgts = [tg for cv, tg in t.cases if cv == 0]
            not_pop = all(pop[0][0] not in cfg.reachable_from([tg]) for tg in false_tgts)
            if has_gt and has_len and to_pop and not_pop:
                good = True
        ctx.ob('C18.r3', B.name, 'len() > limit true-edge evicts with pop_front', good, decisions=len(dec))
    growers = set()
    for b in P.bodies:
        for bid, k, t in P.call_keys(b):
            if k.startswith('LinkedHashMap') and (k.endswith('::insert') or k.endswith('::entry')):
                growers.add(P.parent_fn(b).name)
    for g in sorted(growers):
        ctx.ob('C18.r3', g, 'grows a LinkedHashMap (the pending pool)', g == 'PendingTxs::push')

    # r4 once per peer
    Fh = ctx.body('PendingTxs::fetch_transaction_hashes_for_broadcast')
    is_ins = lambda k, t: k.startswith('HashSet') and k.endswith('::insert')
    cl = [x for x in P.closures_of(Fh) if P.call_sites(x, is_ins)]
    own = P.call_sites(Fh, is_ins)
    ctx.floor('C18.r4', 'peers.insert in fetch_transaction_hashes_for_broadcast (adaptor closure or loop)', len(cl) + len(own), 1)
    if cl:
        # adaptor form: the closure yields `Some(hash)` only on `insert == true`
        x = ctx.fn(cl[0])
        somes = [s for s in ctx.success_sinks(x)]
        ctx.guard('C18.r4', x, is_ins, 'true', somes, gname='peers.insert(peer_id)')
    else:
        # loop form: a hash is pushed to the result only on `insert == true`
        pushes = [(bid, t.span, 'Vec::push (hash emitted for broadcast)') for bid, t in P.call_sites(Fh, lambda k, t: k.endswith('Vec::push') or k.endswith('::push'))]
        ctx.floor('C18.r4', 'hashes pushed in fetch_transaction_hashes_for_broadcast', len(pushes), 1)
        ctx.guard('C18.r4', Fh, is_ins, 'true', pushes, gname='peers.insert(peer_id)')
    nb = 0
    for b in P.bodies:
        for bid, k, t in P.call_keys(b):
            if k.endswith('RelayTransactionHashesBuilder::tx_hashes'):
                nb += 1
                d = DefUse(b)
                ctx.ob('C18.r4', b.name, 'RelayTransactionHashes.tx_hashes derives from fetch_transaction_hashes_for_broadcast',
                       d.from_call(t.args[1], 'PendingTxs::fetch_transaction_hashes_for_broadcast'), at=t.span)
    ctx.floor('C18.r4', 'RelayTransactionHashes builders', nb, 2)
    ctx.only_callers('C18.r4', 'PendingTxs::fetch_transaction_hashes_for_broadcast',
                     {'<RelayProtocol as CKBProtocolHandler>::connected', '<RelayProtocol as CKBProtocolHandler>::notify'}, 2)

    # the announced-to set of a pooled hash only grows while the hash is pooled
    B = ctx.body('PendingTxs::push')
    bdu = DefUse(B)
    ins = P.call_sites(B, lambda k, t: k == 'LinkedHashMap::insert')
    ctx.floor('C18.r4', 'pool insert in PendingTxs::push', len(ins), 1)
    it = ins[0][1]
    tup = [ob.rhs.strip() for (k, b, ob) in bdu.defs.get(int(re.findall(r'_(\d+)', it.args[2])[0]), []) if k == 'assign' and ob.rhs.strip().startswith('(')]
    keeps = False
    if len(tup) == 1:
        parts = [x.strip() for x in tup[0][1:-1].split(', ')]
        keeps = len(parts) == 3 and bdu.from_call(parts[2], lambda k: k in ('LinkedHashMap::remove', 'LinkedHashMap::get', 'LinkedHashMap::get_mut'))
    ctx.ob('C18.r4', B.name, 'a (re)submitted transaction keeps the announced-to set of the entry it replaces', keeps, at=it.span)
    allowed = {('insert', 'PendingTxs::fetch_transaction_hashes_for_broadcast'), ('new', 'PendingTxs::push'), ('clone', None), ('contains', None), ('len', None), ('is_empty', None), ('iter', None)}
    nsites = 0
    for b in P.bodies:
        for bid, blk in b.blocks.items():
            t = blk.term
            if t.kind != 'call' or blk.cleanup:
                continue
            m = re.match(r'^(?:std::collections::)?HashSet::<(?:[\w:]*::)?PeerId(?:, [^>]*)?>::(\w+)', t.callee) or re.match(r'^<(?:std::collections::)?HashSet<(?:[\w:]*::)?PeerId(?:, [^>]*)?> as (\w+)>::(\w+)', t.callee)
            if not m:
                continue
            meth = m.groups()[-1]
            nsites += 1
            owner = P.parent_fn(b).name if hasattr(P.parent_fn(b), 'name') else P.parent_fn(b)
            ok = (meth, owner) in allowed or (meth, None) in allowed or meth in ('default', 'fmt', 'eq')
            ctx.ob('C18.r4', b.name, 'HashSet<PeerId>::%s: the announced-to sets are only created (push) and grown (fetch_transaction_hashes_for_broadcast)' % meth, ok, at=t.span)
    ctx.floor('C18.r4', 'HashSet<PeerId> call sites', nsites, 1)

    # r5 pending status
    G = ctx.body(GETTX)
    pend = []
    for bid, blk in G.blocks.items():
        if blk.cleanup:
            continue
        for s in blk.stmts:
            if s.kind == 'assign' and re.search(r'service::Status::Pending\b', s.rhs):
                pend.append((bid, s.span, 'Status::Pending'))
    ctx.floor('C18.r5', 'construction of Status::Pending in get_transaction', len(pend), 1)
    ctx.guard('C18.r5', G, 'PendingTxs::get', 'Some', pend)
    ctx.guard('C18.r5', G, 'Storage::get_transaction_with_header', 'None', pend)
    # reviewed reference (engine/census.py)
    from rules import census_fns
    census_fns.run(ctx, 'C18')
