"""C16 — fetch statuses and (transaction, block) answers are truthful (DESIGN §5 C16)."""
import re
from engine.rules import Inconclusive, place_switch_guard
from engine.defuse import DefUse
from engine import mir

EXPLANATION = (
    'All-paths rules over MIR: (r1) who-may-call for the functions that mark a fetch missing, remove it, or persist a fetched '
    'header/transaction (only the two proof processes), and an outstanding proof request is installed only for a peer taken from '
    'get_best_proved_peers; (r2) the RPC status reading: fetched only from a store hit, not_found only on the missing flag and after '
    'the request was re-added, fetching only when first_sent > 0; (r3) never lost: a peer\'s in-flight fetches are marked timed out '
    'before the peer is dropped (timeout, disconnect) and before its request is cleared after a rejected response; (r4) the '
    '(transaction, block) pairing must not go through a height -> hash record that other writers can overwrite.')
NOT_DECIDED = 'Status sequences over time and retry scheduling (value/liveness clauses).'

BP = 'SendBlocksProofProcess'
TP = 'SendTransactionsProofProcess'


def run(ctx):
    P = ctx.prog
    ctx.explanation, ctx.not_decided = EXPLANATION, NOT_DECIDED
    # r1
    ctx.only_callers('C16.r1', 'Peers::mark_fetching_headers_missing', {BP + '::execute_internally'}, 1)
    ctx.only_callers('C16.r1', 'Peers::mark_fetching_txs_missing', {TP + '::execute_internally'}, 1)
    ctx.only_callers('C16.r1', 'Peers::remove_fetching_header', {BP + '::execute_internally', 'Peers::remove_fetching_transaction'}, 2)
    ctx.only_callers('C16.r1', 'Peers::remove_fetching_transaction', {TP + '::execute_internally'}, 1)
    # missing is decided only by the (checked) missing hashes of a verified response: guards as for add_fetched_* (C02 r2)
    for proc, markfn, getreq, chk in ((BP, 'Peers::mark_fetching_headers_missing', 'Peer::get_blocks_proof_request', 'BlocksProofRequest::check_block_hashes'),
                                      (TP, 'Peers::mark_fetching_txs_missing', 'Peer::get_txs_proof_request', 'TransactionsProofRequest::check_tx_hashes')):
        F = ctx.body(proc + '::execute_internally')
        sinks = ctx.sites(F, markfn, 1)
        ctx.guard('C16.r1', F, getreq, 'Some', sinks)
        ctx.guard('C16.r1', F, chk, 'true', sinks)
        ctx.guard('C16.r1', F, 'verify_mmr_proof', 'Ok', sinks, unconditional=False)
        du = DefUse(F)
        t = F.blocks[sinks[0][0]].term
        ctx.ob('C16.r1', F.name, 'hashes marked missing are the response\'s missing list checked against the request',
               du.from_call(t.args[1], lambda k: k.endswith('missing_block_hashes') or k.endswith('missing_tx_hashes')), at=t.span)
    # F32: add_fetched_tx stores the transaction bytes as they are and get_transaction parses them strictly: every
    # transaction of the response passes the strict (compatible = false) molecule verification before anything is stored
    T = ctx.body(TP + '::execute_internally')
    tsinks = ctx.sites(T, 'Storage::add_fetched_tx', 1)
    strict = []
    for c in P.closures_of(T, transitive=False):
        for _, k, t in P.call_keys(c):
            if k.endswith('TransactionReader as Reader>::verify') and len(t.args) == 2 and t.args[1].strip() == 'const false':
                strict.append(c)
    tags = [re.search(r'\[closure@([^\]]+)\]', c.sig_args).group(1) for c in strict]

    def strict_scan(k, t):
        return k.endswith('Iterator>::find_map') and any(('closure@' + g) in t.callee for g in tags)
    scans = P.call_sites(T, strict_scan)
    ctx.ob('C16.r1', T.name, 'every transaction of the response is verified strictly (TransactionReader::verify(.., false)) before it is stored',
           bool(scans), closures=[c.name for c in strict])
    if scans:
        ctx.guard('C16.r1', T, strict_scan, 'None', tsinks, unconditional=False, gname='transactions().find_map(strict verify error)')
    from rules.C02 import witnesses_authenticated
    witnesses_authenticated(ctx, 'C16.r1')
    # proof requests go to proven peers
    for fn in ('Peers::update_blocks_proof_request', 'Peers::update_txs_proof_request'):
        for caller in P.callers_of(fn):
            for B in P.by_name.get(caller, []):
                for b in [B] + P.closures_of(B):
                    du = DefUse(b)
                    for bid, t in P.call_sites(b, fn):
                        is_none = bool(re.search(r'Option::<.*>::None', ' '.join(s.rhs for blk in b.blocks.values() for s in blk.stmts
                                                                               if s.kind == 'assign' and s.lhs.strip() == t.args[2].replace('move ', '').strip())))
                        if is_none:
                            continue
                        ctx.fn(b)
                        ctx.ob('C16.r1', b.name, '%s(Some) goes to a peer taken from get_best_proved_peers' % fn.split('::')[1],
                               du.from_call(t.args[1], 'Peers::get_best_proved_peers'), at=t.span)

    # r2 RPC status reading
    for rpc, getinfo, addfn, store in (
            ('<ChainRpcImpl as ChainRpc>::fetch_header', 'StorageWithChainData::get_header_fetch_info', 'StorageWithChainData::add_fetch_header', '<Storage as HeaderProvider>::get_header'),
            ('<TransactionRpcImpl as TransactionRpc>::fetch_transaction', 'StorageWithChainData::get_tx_fetch_info', 'StorageWithChainData::add_fetch_tx', None)):
        F = ctx.body(rpc)
        cfg = P.cfg(F)

        def agg(variant):
            return [(bid, s.span, 'FetchStatus::' + variant) for bid, blk in F.blocks.items() if not blk.cleanup for s in blk.stmts
                    if s.kind == 'assign' and re.search(r'FetchStatus::<.*>::%s\b' % variant, s.rhs)]
        nf, fetching, fetched = agg('NotFound'), agg('Fetching'), agg('Fetched')
        ctx.floor('C16.r2', 'NotFound/Fetching/Fetched constructions in ' + rpc, min(len(nf), len(fetching), len(fetched)), 1)
        ctx.guard('C16.r2', F, getinfo, 'Some', nf + fetching)
        missing = F.debug.get('missing')
        first = F.debug.get('first_sent')
        if not missing or not first:
            raise Inconclusive('%s: debug locals missing/first_sent not found' % rpc)
        ok, nd = place_switch_guard(P, F, r'^%s$' % re.escape(missing), [b for b, _, _ in nf], accept_true=True)
        ctx.ob('C16.r2', F.name, 'not_found only on the missing==true edge', ok and nd >= 1, decisions=nd)
        ok2, nd2 = place_switch_guard(P, F, r'^%s$' % re.escape(missing), [b for b, _, _ in fetching], accept_true=False)
        ctx.ob('C16.r2', F.name, 'fetching only when not missing', ok2 and nd2 >= 1)
        adds = P.call_sites(F, addfn)
        ctx.ob('C16.r2', F.name, 'not_found is returned only after the request was re-added (retried on the next call)',
               any(cfg.dominates(a[0], nf[0][0]) for a in adds), at=nf[0][1])
        du = DefUse(F)
        gts = [c for c in ctx.cmp_stmts(F) if c[2] == 'Gt' and c[4].startswith('const 0_u64')]
        ctx.floor('C16.r2', 'first_sent > 0 test', len(gts), 1)
        ctx.stmt_guard('C16.r2', F, gts[:1], 'true', fetching, gname='first_sent > 0')
        if store:
            ctx.guard('C16.r2', F, store, 'Some', fetched)
        else:
            ctx.guard('C16.r2', F, lambda k, t: k.endswith('Option::is_some'), 'true', fetched, gname='tws.transaction.is_some()')

    # r3 never lost
    R = ctx.body('LightClientProtocol::refresh_all_peers')
    RP = ctx.body('Peers::remove_peer')
    for B, sinkpred, what in ((R, lambda k, t: k.endswith('CKBProtocolContext>::disconnect'), 'nc.disconnect'),
                              (RP, lambda k, t: k.startswith('DashMap') and k.endswith('::remove'), 'inner.remove')):
        cfg = P.cfg(B)
        sk = P.call_sites(B, sinkpred)
        ctx.floor('C16.r3', what + ' in ' + B.name, len(sk), 1)
        for mk in ('Peers::mark_fetching_headers_timeout', 'Peers::mark_fetching_txs_timeout'):
            ms = P.call_sites(B, mk)
            ctx.ob('C16.r3', B.name, '%s dominates %s' % (mk, what), bool(ms) and any(cfg.dominates(m[0], sk[0][0]) for m in ms))
    for proc, clearfn, markfn in ((BP, 'Peers::update_blocks_proof_request', 'Peers::mark_fetching_headers_timeout'),
                                  (TP, 'Peers::update_txs_proof_request', 'Peers::mark_fetching_txs_timeout')):
        E = ctx.body(proc + '::execute')
        clear = ctx.sites(E, clearfn, 1)
        marks = P.call_sites(E, markfn)
        oks = P.call_sites(E, 'Status::is_ok')
        du = DefUse(E)
        oks = [o for o in oks if du.from_call(o[1].args[0], proc + '::execute_internally')]
        if not marks or not oks:
            ctx.ob('C16.r3', E.name, 'a rejected response releases the in-flight fetches before the request is cleared', False, at=clear[0][1],
                   detail='the request is cleared whatever execute_internally returned; entries stay first_sent != 0, timeout == false and are never retried',
                   mark_calls=len(marks), status_tests=len(oks))
        else:
            ctx.guard('C16.r3', E, lambda k, t, _o=oks[0][1]: t is _o, 'true', clear, removed={m[0] for m in marks},
                      gname='status.is_ok() (paths avoiding %s)' % markfn.split('::')[1])

    # r4 (transaction, block) join
    G = ctx.body('Storage::get_transaction_with_header')
    uses_number_join = False
    for b in [G] + P.closures_of(G):
        for blk in b.blocks.values():
            if blk.cleanup:
                continue
            for s in blk.stmts:
                if s.kind == 'assign' and re.search(r'storage::Key::<[^>]*>::BlockNumber\(', s.rhs):
                    uses_number_join = True
    from rules.C02 import key_family_writers
    w = key_family_writers(P, ('BlockNumber',))
    nongenesis = sorted(x for x in w if x != 'Storage::init_genesis_block')
    ctx.ob('C16.r4', G.name, 'the block of a stored transaction is found by content address, not through an overwritable height -> hash record',
           not (uses_number_join and len(nongenesis) >= 2), join_via_block_number=uses_number_join, block_number_writers=nongenesis,
           detail='TxHash -> (number, index, tx) is joined with BlockNumber(number) -> hash; add_fetched_header / add_fetched_tx / filter_block all '
                  'rewrite BlockNumber(number) and rollback_to_block leaves TxHash records behind')
    # reviewed reference of the storage functions' durable writes (engine/census.py)
    from rules import census_fns
    # ---- every in-flight fetch of the peer is released: the per-hash loops visit all hashes (seeded C11-4: `return` for `continue`) ----
    _nl = 0
    for _fn in ('Peers::mark_fetching_headers_timeout', 'Peers::mark_fetching_txs_timeout', 'Peers::mark_fetching_headers_missing', 'Peers::mark_fetching_txs_missing'):
        if P.has(_fn):
            _nl += ctx.loop_visits_all('C16.r5', ctx.body(_fn), 'the per-hash loop visits every hash of the request (no return inside the loop)',
                                       'request for [h1, h2] where h1 was already answered: the loop returns at h1, h2 stays `fetching` for ever')
    ctx.floor('C16.r5', 'per-hash loops of the fetch bookkeeping', _nl, 2)
    census_fns.run(ctx, 'C16')
