"""C07 — check points are finalized only by quorum agreement and never change afterwards (DESIGN §5 C07)."""
import re
from engine.rules import Inconclusive, place_switch_guard
from engine.defuse import DefUse

EXPLANATION = (
    'All-paths rules over MIR: (r1) the persisted check points and the final index are written only by genesis init and '
    'finalize_check_points; (r2) in finalize_check_points both writes are reachable only after the two "enough proven peers" '
    'tests rejected `len < required`, and only through the Some((index, cp)) value that is assigned solely on the accepting edge '
    'of `count_max >= required_peers_count`, with the peer set narrowed by retain(get(index) == Some(cp)) on every path on which not all '
    'peers agreed, and the written vector taken from the narrowed set; (r3) append-only: the first written index is last_final + 1, the written slice '
    'starts at element 1, and the new final index is last_final + index with index drawn from a range starting at 1; (r4) the '
    'quorum is (max_outbound + 1) / 2; (r5) a peer\'s unfinalized vector grows only in add_check_points, behind the alignment, '
    'continuity and first-hash-equality tests, and shrinks only in remove_first_n_check_points.')
NOT_DECIDED = 'The counting argument (fewer deviating peers than the quorum can neither finalize a wrong value nor block agreement).'

FIN = 'LightClientProtocol::finalize_check_points'


def org(du, x, deep=True):
    return du.origins(x, stop_at_calls=not deep)


def calls(o):
    return {x[1] for x in o if x[0] == 'call'}


def narrowing(ctx, P, F, du, cfg, cs, ret, some_blocks, sinks):
    if not ret:
        ctx.ob('C07.r2', F.name, 'the peer set is narrowed to the agreeing peers before the next check point is counted', False, at=some_blocks[0][1], retain_sites=0)
        return
    rb_ = ret[0][0]
    allne = [c for c in cs if c[2] in ('Ne', 'Eq') and 'HashMap::len' in calls(org(du, c[4])) | calls(org(du, c[3]))
             and any(k.endswith('Option::unwrap_or') or k.endswith('Iterator>::max') for k in calls(org(du, c[3])) | calls(org(du, c[4])))]
    sb = some_blocks[0][0]
    if not allne:
        # no all-agree shortcut: retain must lie on every path into the Some assignment
        ctx.ob('C07.r2', F.name, 'the peer set is narrowed to the agreeing peers before the next check point is counted',
               cfg.dominates(rb_, sb), at=some_blocks[0][1])
    else:
        c = allne[0]
        nb = c[0]
        blk = F.blocks[nb]
        tgt_skip = None
        if blk.term.kind == 'switchInt':
            # edge on which the counts are equal (everyone agreed): cmp Ne -> case 0, cmp Eq -> otherwise
            for cval, tgt in blk.term.cases:
                if (c[2] == 'Ne' and cval == 0) or (c[2] == 'Eq' and cval != 0 and cval is not None):
                    tgt_skip = tgt
            if tgt_skip is None:
                tgt_skip = blk.term.otherwise if c[2] == 'Eq' else None
        others = [t for t in cfg.succ.get(nb, []) if t != tgt_skip]
        reach2 = cfg.reachable_from(others, removed_nodes={rb_, nb}) if others else set()
        ctx.ob('C07.r2', F.name, 'the peer set is narrowed to the agreeing peers before the next check point is counted (retain may be skipped only when count_max == peers_with_data.len())',
               cfg.dominates(nb, sb) and tgt_skip is not None and sb not in reach2, at=ret[0][1].span)
    rc = None
    for x in P.closures_of(F):
        if P.call_sites(x, lambda k, t: k.endswith('slice::get')) and P.call_sites(x, lambda k, t: k in ('<Byte32 as PartialEq>::eq', '<&Byte32 as PartialEq>::eq')) and 'bool' in x.ret:
            rc = x
    if rc is None:
        ctx.ob('C07.r2', F.name, 'retain keeps exactly the peers whose check point at the index equals the quorum value', False, at=ret[0][1].span)
    else:
        ctx.guard('C07.r2', rc, lambda k, t: k in ('<Byte32 as PartialEq>::eq', '<&Byte32 as PartialEq>::eq'), 'true', ctx.success_sinks(rc), gname='check_points.get(index) == Some(cp)')
    # the vector that is written is one of the retained peers'
    ctx.ob('C07.r2', F.name, 'the finalized values are taken from a peer that survived the narrowing',
           du.from_call(F.blocks[sinks[0][0]].term.args[2], lambda k: k in ('HashMap::into_values', 'HashMap::values', 'HashMap::iter', 'HashMap::into_iter')), at=F.blocks[sinks[0][0]].term.span)



def run(ctx):
    P = ctx.prog
    ctx.explanation, ctx.not_decided = EXPLANATION, NOT_DECIDED
    # r1
    ctx.only_callers('C07.r1', 'Storage::update_check_points', {'Storage::init_genesis_block', FIN}, 1)
    ctx.only_callers('C07.r1', 'Storage::update_max_check_point_index', {'Storage::init_genesis_block', FIN}, 1)
    ctx.only_callers('C07.r1', FIN, {'LightClientProtocol::refresh_all_peers'}, 1)
    from rules.C02 import key_family_writers
    from rules.C01 import meta_key_writers
    w = key_family_writers(P, ('CheckPointIndex',))
    ctx.floor('C07.r1', 'functions that put Key::CheckPointIndex', len(w), 1)
    for f in sorted(w):
        ctx.ob('C07.r1', f, 'puts CheckPointIndex records', f == 'Storage::update_check_points')
    mw = meta_key_writers(P, ('MAX_CHECK_POINT_INDEX',))
    ctx.floor('C07.r1', 'functions that put MAX_CHECK_POINT_INDEX', len(mw), 1)
    for f in sorted(mw):
        ctx.ob('C07.r1', f, 'puts MAX_CHECK_POINT_INDEX', f == 'Storage::update_max_check_point_index')

    # r2
    F = ctx.body(FIN)
    du = DefUse(F)
    cfg = P.cfg(F)
    sinks = ctx.sites(F, 'Storage::update_check_points', 1) + ctx.sites(F, 'Storage::update_max_check_point_index', 1)
    cs = ctx.cmp_stmts(F)
    enough = [c for c in cs if c[2] in ('Lt', 'Ge') and 'HashMap::len' in calls(org(du, c[3])) and 'Peers::required_peers_count' in calls(org(du, c[4]))]
    # guards, not anchors: a missing test is a finding
    # (the test BEFORE the cleaning was removed by fix F69: finding contradicting peers needs no quorum; the one after it guards
    # the finalization and is what the property needs)
    ctx.ob('C07.r2', F.name, 'the number of proven peers is compared with the quorum after dropping contradicting peers', len(enough) >= 1, found=len(enough))
    rm = P.call_sites(F, lambda k, t: k.endswith('HashMap::remove'))
    for c in enough[:1]:
        ctx.ob('C07.r2', F.name, 'the quorum test follows the removal of contradicting peers',
               bool(rm) and all(c[0] in cfg.reachable_from(cfg.succ[b]) for b, _ in rm) and not any(b in cfg.reachable_from(cfg.succ[c[0]]) for b, _ in rm),
               removals=len(rm))
    for c in enough:
        ctx.stmt_guard('C07.r2', F, [c], 'false' if c[2] == 'Lt' else 'true', sinks, gname='peers_with_data.len() %s required' % ('<' if c[2] == 'Lt' else '>='))
    quorum = [c for c in cs if c[2] in ('Ge', 'Lt') and 'Peers::required_peers_count' in calls(org(du, c[4])) and c not in enough
              and any(k.endswith('Option::unwrap_or') or k.endswith('Iterator>::max') for k in calls(org(du, c[3])))]
    some_blocks = [(bid, s.span, 'check_point_opt = Some((index, cp))') for bid, blk in F.blocks.items() if not blk.cleanup for s in blk.stmts
                   if s.kind == 'assign' and re.search(r'Option::<\(usize, ckb_types::packed::Byte32\)>::Some\(', s.rhs)]
    ctx.floor('C07.r2', 'assignment of Some((index, check_point))', len(some_blocks), 1)
    if not quorum:
        ctx.ob('C07.r2', F.name, 'a candidate is chosen only when count_max >= required_peers_count', False, at=some_blocks[0][1])
    for c in quorum:
        ctx.stmt_guard('C07.r2', F, [c], 'true' if c[2] == 'Ge' else 'false', some_blocks, unconditional=True, gname='count_max %s required_peers_count' % ('>=' if c[2] == 'Ge' else '<'))
        # reject edge leaves the loop: from the false edge no Iterator::next of the index range is reachable
    # writes only through the Some(..) value
    opt_locals = set()
    for bid, blk in F.blocks.items():
        for s in blk.stmts:
            if s.kind == 'assign' and re.search(r'Option::<\(usize, ckb_types::packed::Byte32\)>::(Some|None)', s.rhs):
                opt_locals.add(s.lhs.strip())
    # locals the option is moved into
    changed = True
    while changed:
        changed = False
        for bid, blk in F.blocks.items():
            for s in blk.stmts:
                if s.kind == 'assign' and re.fullmatch(r'move (_\d+)', s.rhs.strip()) and s.rhs.strip()[5:] in opt_locals and s.lhs.strip() not in opt_locals:
                    opt_locals.add(s.lhs.strip())
                    changed = True
    dec_edges = set()
    nd = 0
    for bid, blk in F.blocks.items():
        if blk.cleanup or blk.term.kind != 'switchInt':
            continue
        d = blk.term.discr.replace('move ', '').strip()
        for s in blk.stmts:
            m = re.match(r'^discriminant\((_\d+)\)$', s.rhs.strip()) if s.kind == 'assign' else None
            if m and s.lhs.strip() == d and m.group(1) in opt_locals:
                nd += 1
                for cval, tgt in blk.term.cases:
                    if cval == 1:
                        dec_edges.add((bid, tgt))
    reach = cfg.reachable_from([cfg.entry], removed_edges=dec_edges)
    ctx.ob('C07.r2', F.name, 'both writes are reachable only through the Some((index, check_point)) arm', nd >= 1 and all(sb not in reach for sb, _, _ in sinks),
           decisions=nd)

    # narrowing: agreement must hold for EVERY check point since the final one, so after index i has a quorum value cp the peer set
    # is cut down (HashMap::retain) to the peers that reported cp at i before index i+1 is counted, unless all of them agreed.
    ret = P.call_sites(F, lambda k, t: k == 'HashMap::retain')
    narrowing(ctx, P, F, du, cfg, cs, ret, some_blocks, sinks)

    # r3 append-only
    uc = F.blocks[sinks[0][0]].term
    o1 = org(du, uc.args[1])
    ctx.ob('C07.r3', F.name, 'first written index is last finalized index + 1',
           'Storage::get_last_check_point' in calls(o1) and any(x[0] == 'op' and x[1] in ('CheckedAdd', 'Add') for x in o1)
           and ('const', 'const 1_u32') in o1, at=uc.span)
    ri = [(b, t) for b, t in P.call_sites(F, lambda k, t: k.endswith('RangeInclusive::new'))]
    ctx.floor('C07.r3', 'slice range check_points[1..=index]', len(ri), 1)
    o2 = org(du, uc.args[2])
    rb = ri[0][0]
    ctx.ob('C07.r3', F.name, 'written slice starts at element 1 (element 0 is the already-final check point)',
           ri[0][1].args[0].strip() == 'const 1_usize' and any(x[0] == 'call' and x[2] == rb for x in o2), at=ri[0][1].span, start=ri[0][1].args[0])
    um = F.blocks[sinks[1][0]].term
    o3 = org(du, um.args[1])
    ctx.ob('C07.r3', F.name, 'new final index = last finalized index + index',
           'Storage::get_last_check_point' in calls(o3) and any(x[0] == 'op' and x[1] in ('CheckedAdd', 'Add') for x in o3), at=um.span)
    # index comes from a Range whose start is const 1
    rng = [s for blk in F.blocks.values() if not blk.cleanup for s in blk.stmts if s.kind == 'assign'
           and re.match(r'^(?:std::ops::)?Range::<usize> \{ start: const (\d+)_usize, end: ', s.rhs.strip())]
    starts = [int(re.search(r'start: const (\d+)_usize', s.rhs).group(1)) for s in rng]
    ctx.ob('C07.r3', F.name, 'candidate index ranges over 1..length_max (never 0: the final check point is not re-decided)',
           len(starts) >= 1 and all(x >= 1 for x in starts), starts=starts)

    # r4 quorum formula
    R = ctx.body('Peers::required_peers_count')
    txt = [s.rhs.strip() for blk in R.blocks.values() if not blk.cleanup for s in blk.stmts if s.kind == 'assign']
    add1 = any(re.match(r'^CheckedAdd\(_\d+, const 1_u32\)$', x) or re.match(r'^Add\(.*, const 1_u32\)$', x) for x in txt)
    div2 = any(re.match(r'^Div\(move _\d+, const 2_u32\)$', x) for x in txt)
    src = bool(P.call_sites(R, 'Peers::get_max_outbound_peers'))
    other_arith = [x for x in txt if re.match(r'^(Checked)?(Add|Sub|Mul|Div|Rem|Shr|Shl)\(', x) and not (
        re.match(r'^CheckedAdd\(_\d+, const 1_u32\)$', x) or re.match(r'^Div\(move _\d+, const 2_u32\)$', x))]
    if not src or (not add1 and not div2 and not other_arith):
        raise Inconclusive('Peers::required_peers_count: unrecognised form')
    ctx.ob('C07.r4', R.name, 'required_peers_count = (max_outbound_peers + 1) / 2', add1 and div2 and not other_arith, arithmetic=[x for x in txt if re.match(r'^(Checked)?(Add|Sub|Mul|Div|Rem)', x)])

    # r5 CheckPoints.inner
    A = ctx.body('CheckPoints::add_check_points')
    adu = DefUse(A)
    ext = [(b, t.span, 'inner.extend_from_slice') for b, t in P.call_sites(A, lambda k, t: k.endswith('Vec::extend_from_slice'))]
    ctx.floor('C07.r5', 'extend_from_slice in add_check_points', len(ext), 2)
    asinks = ext + ctx.success_sinks(A)
    acs = ctx.cmp_stmts(A)
    rem = [c for c in acs if c[2] in ('Ne', 'Eq') and c[4] == 'const 0_u64' and any(x[0] == 'op' and x[1] == 'Rem' for x in org(adu, c[3], False))]
    ctx.floor('C07.r5', 'alignment test start_number % interval != 0', len(rem), 1)
    ctx.stmt_guard('C07.r5', A, rem[:1], 'false' if rem[0][2] == 'Ne' else 'true', asinks, gname='start_number %% interval %s 0' % ('!=' if rem[0][2] == 'Ne' else '=='))
    cont = [c for c in acs if c[2] in ('Ne', 'Eq') and ('CheckPoints::number_of_next_check_point' in calls(org(adu, c[3])) or 'CheckPoints::number_of_next_check_point' in calls(org(adu, c[4])))]
    ctx.floor('C07.r5', 'continuity test start_number != next_number', len(cont), 1)
    ctx.stmt_guard('C07.r5', A, cont[:1], 'false' if cont[0][2] == 'Ne' else 'true', asinks, gname='start_number %s next_number' % ('!=' if cont[0][2] == 'Ne' else '=='))
    ctx.guard('C07.r5', A, lambda k, t: k in ('<Byte32 as PartialEq>::ne', '<&Byte32 as PartialEq>::ne'), 'false', asinks, gname='prev_last_check_point != curr_first_check_point')
    ctx.guard('C07.r5', A, lambda k, t: k.endswith('slice::is_empty'), 'false', asinks, gname='check_points.is_empty()')
    # inner grows / shrinks only in the two methods
    growers, drainers = set(), set()
    fld = re.compile(r'\(\(\*_\d+\)\.2: std::vec::Vec<ckb_types::packed::Byte32>\)')
    for b in P.bodies:
        if b.promoted is not None or not b.params or 'CheckPoints' not in b.params[0][1]:
            continue
        bdu = DefUse(b)
        for bid, k, t in P.call_keys(b):
            if re.search(r'Vec::(extend_from_slice|push|insert|append|extend)$', k) or k.endswith('Extend>::extend'):
                growers.add(P.parent_fn(b).name)
            if re.search(r'Vec::(drain|remove|clear|truncate|pop|split_off|retain)$', k):
                drainers.add(P.parent_fn(b).name)
    ctx.ob('C07.r5', 'CheckPoints', 'inner grows only in add_check_points', growers == {'CheckPoints::add_check_points'}, growers=sorted(growers))
    ctx.ob('C07.r5', 'CheckPoints', 'inner shrinks only in remove_first_n_check_points', drainers == {'CheckPoints::remove_first_n_check_points'}, drainers=sorted(drainers))
    ctx.only_callers('C07.r5', 'CheckPoints::add_check_points', {'Peers::add_check_points'}, 1)
    ctx.only_callers('C07.r5', 'CheckPoints::remove_first_n_check_points', {'Peers::remove_first_n_check_points'}, 1)
    ctx.only_callers('C07.r5', 'Peers::remove_first_n_check_points', {FIN}, 1)
    # contradicting peers are banned: ban_peer reachable from the `check_points[index] != last_check_point` true edge
    bans = P.call_sites(F, lambda k, t: k.endswith('CKBProtocolContext>::ban_peer'))
    ctx.floor('C07.r5', 'ban_peer in finalize_check_points', len(bans), 1)
    # reviewed reference of the checker functions' decision structure (engine/census.py)
    from rules import census_fns
    # r6 (F68, F70): contradiction of ANY finalized check point is detected; a repeated consistent answer is not a contradiction
    gcp = P.call_sites(F, 'Storage::get_check_points')
    cmpc = [c for c in P.closures_of(F, transitive=False) if any(k.endswith('Byte32 as PartialEq>::ne') or k.endswith('Byte32 as PartialEq>::eq') for _, k, _ in P.call_keys(c))]
    fdu6 = DefUse(F)
    used = False
    for b_, k_, t_ in P.call_keys(F):
        if k_.endswith('Iterator>::any') or k_.endswith('Iterator>::all'):
            if any(o[0] == 'call' and o[1].endswith('Storage::get_check_points') for o in fdu6.origins(t_.args[0], stop_at_calls=False)):
                used = True
    ctx.ob('C07.r6', F.name, 'the entries of a peer before the last finalized index are compared with the stored finalized check points before they are dropped',
           bool(gcp) and bool(cmpc) and used,
           failing_history=None if (gcp and cmpc and used) else 'quorum 2 of 3: honest peers report [c0,c1,c2,c3], the third [c0,X,Y,c3]; after c1..c3 are final only index 3 is compared: '
           'the deviating peer passes, is not banned and keeps counting toward the quorum')
    census_fns.requires(ctx, 'C07.r6', 'CheckPoints::add_check_points', r'^Err\(Status::Ignore\)', r'Zip::all|Iterator::all|== ',
                        'an answer that starts at an already known check point and agrees with the known ones is ignored (the peer is not banned for the client\'s repeated request)',
                        'tick, tick, answer, answer: the second identical BlockFilterCheckPoints answer is CheckPointsIsUnexpected (473) and the honest peer is banned for 5 minutes')
    census_fns.run(ctx, 'C07')
