"""C13 — cell and transaction queries are exact views of the index (DESIGN §5 C13)."""
import re
from engine.rules import Inconclusive
from engine.defuse import DefUse
from engine import layout, siblings

EXPLANATION = (
    'Rules over MIR: (r1) writer/reader layout agreement — the offsets at which get_cells, get_cells_capacity and get_transactions '
    'slice block number / tx index / io index / io type out of an index key, and the stored transaction out of a TxHash value, equal '
    'the widths and order in which append_key / Key::into_vec / Value::Transaction write them; (r2) sibling agreement — get_cells and '
    'get_cells_capacity apply the same multiset of filter comparisons (operator, filtered quantity, range bound), and the grouped and '
    'ungrouped branches of get_transactions apply the same block-range filter; (r3) the three queries read only through one snapshot '
    '(shared with C17.L4); (r4) limit == 0 is rejected before iteration, and the cursor entry itself is skipped iff a cursor was given; '
    '(r5) seek keys: ascending starts at the prefix, cursored queries at the cursor key, descending at prefix ++ [0xff; n] with n >= 1 for '
    'every accepted args length, which bounds the prefix range only if indexed args are limited at registration.')
NOT_DECIDED = ('Exactly-once pagination, descending = reverse(ascending), grouping equals regrouping of the ungrouped answer, the capacity '
               'sum: value clauses over index contents.')

GC = '<BlockFilterRpcImpl as BlockFilterRpc>::get_cells'
GCC = '<BlockFilterRpcImpl as BlockFilterRpc>::get_cells_capacity'
GT = '<BlockFilterRpcImpl as BlockFilterRpc>::get_transactions'


def all_facts(P, body, closures=True):
    fs = set(layout.fact_set(body))
    if closures:
        for c in P.closures_of(body):
            fs |= layout.fact_set(c)
    return fs


def writer_widths(ctx):
    """(widths of append_key's integer suffix in write order, value prefix widths of Value::Transaction)"""
    P = ctx.prog
    A = ctx.body('append_key')
    seq = []
    for bid in sorted(P.cfg(A).reachable()):
        t = A.blocks[bid].term
        if t.kind == 'call':
            m = re.search(r'(?:<impl (\w+)>|\b(u8|u16|u32|u64))::to_(be|le)_bytes$', t.callee)
            if m:
                seq.append((layout.WIDTH[m.group(1) or m.group(2)], m.group(3)))
    if [w for w, e in seq] != [8, 4, 4] or any(e != 'be' for w, e in seq):
        raise Inconclusive('append_key: unexpected integer suffix %r (the readers are checked against 8,4,4 big-endian derived here)' % seq)
    # Value::Transaction: the From<Value> for Vec<u8> impl
    vals = [b for b in P.by_name.get('<Vec as From>::from', []) if b.params and 'Value' in b.params[0][1]]
    if len(vals) != 1:
        raise Inconclusive('From<Value> for Vec<u8> not found')
    V = ctx.fn(vals[0])
    vseq = []
    for bid in sorted(P.cfg(V).reachable()):
        t = V.blocks[bid].term
        if t.kind == 'call':
            m = re.search(r'(?:<impl (\w+)>|\b(u8|u16|u32|u64))::to_(be|le)_bytes$', t.callee)
            if m:
                vseq.append((layout.WIDTH[m.group(1) or m.group(2)], m.group(3)))
    return [w for w, e in seq], vseq


def expected_key_ranges(widths, io_byte):
    """ranges relative to the end of the key for the integer suffix"""
    total = sum(widths) + (1 if io_byte else 0)
    out = []
    pos = total
    for w in widths:
        end = pos - w
        if end == 0:
            out.append(('rangefrom', 'len-%d' % pos))
        else:
            out.append(('range', 'len-%d' % pos, 'len-%d' % end))
        pos = end
    return out


def key_length_filters(ctx, rule, fname, tail, exact=False):
    """F40: the index keys have no delimiter after the variable-length script args, so `key.starts_with(prefix)` also
    holds for keys of a script with shorter args whose big-endian block number continues the searched args with zero
    bytes (and, for an exact script, for keys of scripts with longer args).  Every scan that selects records by
    `starts_with` must therefore pass only keys of length >= prefix + tail (== for an exact script) on to the code that
    slices the key from its end: the take_while(starts_with) result may only flow into a `filter` whose closure compares
    the key length with prefix length + `tail`."""
    P = ctx.prog
    F = ctx.body(fname)
    du = DefUse(F)
    scans, lens = {}, {}
    for c in P.closures_of(F, transitive=False):
        tag = re.search(r'\[closure@([^\]]+)\]', c.sig_args)
        if not tag:
            continue
        tag = tag.group(1)
        calls = [(k, t) for _, k, t in P.call_keys(c)]
        ret_calls = [k for k, t in calls if t.dest and t.dest.strip() == '_0']
        if any(k == 'slice::starts_with' for k, t in calls):
            scans[tag] = c
        for blk in c.blocks.values():
            if blk.cleanup:
                continue
            for st in blk.stmts:
                if st.kind != 'assign' or st.lhs.strip() != '_0':
                    continue
                m = re.match(r'^(Ge|Eq|Le)\((.*), (.*)\)$', st.rhs.strip())
                if not m:
                    continue
                cdu = DefUse(c)
                sides = [cdu.origins(x, stop_at_calls=False) for x in (m.group(2), m.group(3))]
                keylen = [any(o[0] == 'call' and o[1] == 'slice::len' for o in sd) for sd in sides]
                # the other side: <prefix length> + tail
                vals = set()
                for blk2 in c.blocks.values():
                    for s2 in blk2.stmts:
                        mm = re.match(r'^CheckedAdd\((.*), (.*)\)$', (s2.rhs or '').strip())
                        if mm:
                            for o in (mm.group(1), mm.group(2)):
                                lit = re.fullmatch(r'const (\d+)_usize', o.strip())
                                if lit:
                                    vals.add(int(lit.group(1)))
                                elif o.strip() == 'const _':
                                    for e in s2.extra:
                                        for nm in re.findall(r'Unevaluated\(([A-Z][A-Z0-9_]*),', e):
                                            v = P.consts.get(nm, {}).get('value')
                                            if v is not None:
                                                vals.add(v)
                op = m.group(1)
                good_op = (op == 'Eq') if exact else ((op == 'Ge' and keylen[0]) or (op == 'Le' and keylen[1]) or op == 'Eq')
                if any(keylen) and good_op and tail in vals:
                    lens[tag] = c
    ctx.floor(rule, 'index scans selecting by starts_with in ' + fname, len(scans), 1)
    for bid, k, t in P.call_keys(F):
        if not k.endswith('Iterator>::take_while'):
            continue
        stag = [g for g in scans if t.callee.rstrip().endswith('::take_while::<[closure@%s]>' % g)]
        if not stag:
            continue
        ctx.fn(scans[stag[0]])
        # every use of the take_while result is a `filter` with a length closure
        dest = t.dest.strip()
        direct = [(b2, k2, t2) for b2, k2, t2 in P.call_keys(F) if t2.args and any(_flows(du, F, dest, a) for a in t2.args)]
        okc = bool(direct) and all(k2.endswith('Iterator>::filter') and any(t2.callee.rstrip().endswith('::filter::<[closure@%s]>' % g) for g in lens) for b2, k2, t2 in direct)
        ctx.ob(rule, fname, 'records selected by starts_with(prefix) are used only when the key length is %s prefix + %d' % ('==' if exact else '>=', tail), okc,
               at=t.span, consumers=[k2 for _, k2, _ in direct],
               failing_history=None if okc else 'scripts A and A|00 registered (e.g. anyone-can-pay with minimum 0): a cell of A in a block below 2^56 has the key '
               'prefix(A)|00..: it starts with prefix(A|00) and is returned for A|00; rollback_to_block parses it with shifted offsets (index out of bounds)')


def _flows(du, F, dest, arg):
    """`arg` is `dest` or a plain move/copy chain from it"""
    a = arg.replace('move ', '').replace('copy ', '').strip()
    seen = set()
    while a not in seen:
        seen.add(a)
        if a == dest:
            return True
        nxt = None
        for blk in F.blocks.values():
            if blk.cleanup:
                continue
            for st in blk.stmts:
                if st.kind == 'assign' and st.lhs.strip() == a:
                    m = re.fullmatch(r'(?:move |copy )?(_\d+)', st.rhs.strip())
                    if m:
                        nxt = m.group(1)
        if nxt is None:
            return False
        a = nxt
    return False


def run(ctx):
    P = ctx.prog
    ctx.explanation, ctx.not_decided = EXPLANATION, NOT_DECIDED
    widths, vseq = writer_widths(ctx)
    vw = [w for w, e in vseq]
    if vw != [8, 4] or any(e != 'be' for w, e in vseq):
        raise Inconclusive('Value::Transaction prefix is %r' % vseq)
    voff = sum(vw)
    # r1 layout
    cell_exp = expected_key_ranges(widths, False)
    tx_exp = expected_key_ranges(widths, True)
    for name, exp, need in ((GC, cell_exp, cell_exp), (GCC, cell_exp, [cell_exp[0], cell_exp[2]]), (GT, tx_exp, tx_exp)):
        F = ctx.body(name)
        fs = all_facts(P, F)
        for e in need:
            ctx.ob('C13.r1', name, 'reads key field at %s as written by append_key' % (e,), e in fs, writer_widths=widths)
        lenr = {f for f in fs if f[0] in ('range', 'rangefrom') and any(isinstance(x, str) and x.startswith('len-') for x in f[1:])}
        ctx.ob('C13.r1', name, 'no key slice at an offset the writer does not produce', lenr <= set(exp), extra=sorted(map(str, lenr - set(exp))))
        ctx.ob('C13.r1', name, 'stored transaction is read after the %d-byte (number, index) prefix' % voff, ('rangefrom', voff) in fs)
        be = {f for f in fs if f[0] == 'bytes' and f[1] == 'from'}
        ctx.ob('C13.r1', name, 'integers are decoded big-endian with the written widths', be <= {('bytes', 'from', 'be', 8), ('bytes', 'from', 'be', 4)} and len(be) >= 1,
               got=sorted(map(str, be)))
    GTX = ctx.body('Storage::get_transaction')
    gfs = all_facts(P, GTX)
    ctx.ob('C13.r1', GTX.name, 'Value::Transaction is parsed as (0..8, 8..12, 12..)', {('range', 0, vw[0]), ('range', vw[0], voff), ('rangefrom', voff)} <= gfs,
           got=sorted(map(str, gfs)))
    # service.rs readers of the stored transaction: every `[12..]`
    n12 = 0
    for b in P.bodies:
        if b.promoted is None and b.file == 'src/service.rs':
            for f in layout.facts(b):
                if f[0] == 'rangefrom' and f[1] == voff:
                    n12 += 1
    ctx.floor('C13.r1', 'readers of the stored transaction at offset %d in service.rs' % voff, n12, 4)

    # r2 sibling agreement
    def filter_closure(F):
        best = None
        for c in P.closures_of(F, transitive=False):
            s = siblings.signature(ctx, c)
            if any(x[2].startswith('range[') for x in s):
                if best is None or len(s) > len(best[1]):
                    best = (c, s)
        return best
    a = filter_closure(ctx.body(GC))
    b = filter_closure(ctx.body(GCC))
    if not a or not b:
        raise Inconclusive('filter closures of get_cells / get_cells_capacity not found')
    ctx.fn(a[0]); ctx.fn(b[0])
    # the comparisons are guards, not anchors: fewer than reviewed is a finding, not an inconclusive run
    ctx.ob('C13.r2', GC, 'get_cells applies the ten reviewed filter comparisons (script length x2x2, data length x2, capacity x2, block range x2)', len(a[1]) >= 10, found=len(a[1]))
    ctx.ob('C13.r2', GCC, 'get_cells_capacity applies exactly the filter comparisons of get_cells', a[1] == b[1],
           only_in_get_cells=[x for x in a[1] if x not in b[1]], only_in_capacity=[x for x in b[1] if x not in a[1]])
    T = ctx.body(GT)
    grouped = [x for x in siblings.signature(ctx, T) if x[2].startswith('range[')]
    ung = filter_closure(T)
    if not ung:
        raise Inconclusive('ungrouped filter closure of get_transactions not found')
    ungr = [x for x in ung[1] if x[2].startswith('range[')]
    ctx.ob('C13.r2', GT, 'the grouped branch of get_transactions applies both block-range comparisons', len(grouped) >= 2, found=len(grouped))
    ctx.ob('C13.r2', GT, 'grouped and ungrouped branches apply the same block-range filter', grouped == ungr, grouped=grouped, ungrouped=ungr)
    # block-range semantics [r0, r1): Lt r0 / Ge r1 everywhere
    for nm, sig in ((GC, a[1]), (GCC, b[1]), (GT, grouped)):
        blk = [x for x in sig if x[1] == 'from_be_bytes+len' and x[2].startswith('range[')]
        ctx.ob('C13.r2', nm, 'block range is half-open [r0, r1): reject on < r0 or >= r1', sorted((x[0], x[2]) for x in blk) == [('Ge', 'range[1]'), ('Lt', 'range[0]')], got=blk)

    # r3 snapshot
    for q in (GC, GT, GCC):
        Q = ctx.body(q)
        bad = []
        snaps = 0
        for c in [Q] + P.closures_of(Q):
            for bid, k, t in P.call_keys(c):
                if k.startswith('<Snapshot as '):
                    snaps += 1
                if re.match(r'^<DB as (Get|GetPinned|Iterate)', k):
                    bad.append((k, str(t.span)))
        ctx.ob('C13.r3', q, 'all index reads of the query go through one snapshot', not bad and snaps >= 2, direct_db_reads=bad, snapshot_reads=snaps)

    # r4 limit and cursor
    for q in (GC, GT):
        Q = ctx.body(q)
        du = DefUse(Q)
        eq0 = [c for c in ctx.cmp_stmts(Q) if c[2] == 'Eq' and c[4] == 'const 0_usize' and any(o[0] == 'call' and (o[1].endswith('Uint32::value') or o[1].endswith('JsonUint::value')) for o in du.origins(c[3], stop_at_calls=False))]
        its = [(b, t.span, 'snapshot.iterator') for b, t in P.call_sites(Q, lambda k, t: k == '<Snapshot as Iterate>::iterator')]
        ctx.floor('C13.r4', 'snapshot.iterator in ' + q, len(its), 1)
        if not eq0:
            ctx.ob('C13.r4', q, 'limit == 0 is rejected before iteration', False)
        else:
            ctx.stmt_guard('C13.r4', Q, eq0[:1], 'false', its, gname='limit == 0')
        sk = P.call_sites(Q, lambda k, t: k.endswith('Iterator>::skip'))
        ctx.ob('C13.r4', q, 'the number of skipped entries comes from build_query_options (1 iff a cursor was given)',
               bool(sk) and du.from_call(sk[0][1].args[1], 'build_query_options'))
    BQ = ctx.body('build_query_options')
    consts = set()
    for c in P.closures_of(BQ):
        for blk in c.blocks.values():
            for s in blk.stmts:
                if s.kind == 'assign':
                    m = re.search(r'const (\d+)_usize\)$', s.rhs.strip())
                    if m and s.rhs.strip().startswith('('):
                        consts.add(int(m.group(1)))
    ctx.ob('C13.r4', BQ.name, 'skip is 0 without a cursor and 1 with one', consts == {0, 1}, got=sorted(consts))

    # r6 (F40): prefix aliasing between scripts whose args extend each other with the bytes of the block number
    key_length_filters(ctx, 'C13.r6', GC, 16)
    key_length_filters(ctx, 'C13.r6', GCC, 16)
    key_length_filters(ctx, 'C13.r6', GT, 17)
    # r7 (F55, F56): the filters of get_transactions.  script_len_range is not implemented for transactions: it must be rejected like
    # the other two, not silently ignored; the script filter is evaluated on the cell of the entry (prefix match, as get_cells does),
    # not by a point lookup in the index of the filter script (which only has registered scripts from their own start numbers)
    from engine import census
    act, _ = census.compute(P, GT, closures=True)
    rej = [e for e in act if e['cls'] == 'reject' and any('script_len_range' in a and a.rstrip().endswith('is Some') for a in e['trigger'])]
    ctx.ob('C13.r7', GT, 'get_transactions rejects filter.script_len_range (not implemented for transactions) instead of ignoring it', bool(rej))
    Tb = ctx.body(GT)
    lookups = [st for c in [Tb] + P.closures_of(Tb) for blk in c.blocks.values() if not blk.cleanup for st in blk.stmts
               if st.kind == 'assign' and re.search(r'Key::<[^>]*>::Tx(Lock|Type)Script\(', st.rhs or '')]
    cellf = [t for c in [Tb] + P.closures_of(Tb) for _, k, t in P.call_keys(c) if k == 'entry_cell_script_starts_with']
    ctx.ob('C13.r7', GT, 'the script filter of get_transactions is evaluated on the cell of the entry in both branches, not looked up in the index of the filter script',
           not lookups and len(cellf) >= 2, index_lookups=len(lookups), cell_checks=len(cellf),
           failing_history=None if (not lookups and len(cellf) >= 2) else 'set_scripts([lock]); a cell with (lock, type T) is indexed; get_transactions({script: lock, filter: {script: T}}) '
           'returns nothing (T is not registered, its index is empty) while get_cells with the same key returns the cell')
    # (F57, known) every range filter is half-open [r0, r1): the upper bound is excluded
    incl = []
    for nm in (GC, GCC):
        fc = filter_closure(ctx.body(nm))
        for op, lt, rt in (fc[1] if fc else []):
            if (op == 'Gt' and str(rt).startswith('range[')) or (op == 'Lt' and str(lt).startswith('range[') and False):
                incl.append((nm.split('::')[-1], op, lt, rt))
    ctx.ob('C13.r7', GC, 'every range filter excludes its upper bound ([r0, r1), as documented for the indexer API)', not incl, inclusive_upper_bounds=[str(x) for x in incl],
           failing_history=None if not incl else 'script_len_range [1, 33): a cell whose type script has exactly 33 bytes (empty args) is returned by get_cells and summed by '
           'get_cells_capacity; output_data_len_range / output_capacity_range / block_range exclude r1')
    # r5 seek keys: where an un-cursored query starts iterating
    seek_keys(ctx, BQ)
    # reviewed reference (engine/census.py)
    from rules import census_fns
    census_fns.run(ctx, 'C13')


def seek_keys(ctx, BQ):
    """The four (order, cursor) cases of build_query_options are the closures handed to Option::map_or_else.  Each returns
    (from_key, Direction, skip).  Ascending without a cursor must start AT the prefix (smallest key with it); descending without a
    cursor must start at a key that is >= every key with the prefix: the reviewed idiom is prefix ++ [0xff; n] (concat of the cloned
    prefix and from_elem(u8::MAX, n)), which is such a bound only if n >= 1 for every accepted args_len (every index key continues
    past the script with a non-empty (number, index, ...) suffix whose first byte is < 0xff)."""
    P = ctx.prog
    cases = {}
    for c in P.closures_of(BQ):
        du = DefUse(c)
        for bid, blk in c.blocks.items():
            for st in blk.stmts:
                if st.kind == 'assign' and st.lhs.strip() == '_0' and st.rhs.strip().startswith('('):
                    parts = [x.strip() for x in st.rhs.strip()[1:-1].split(', ')]
                    if len(parts) != 3:
                        continue
                    dirs = {o[3].strip() for o in du.origins(parts[1]) if o[0] == 'agg'} | {d for (k, b, ob) in du.defs.get(int(re.findall(r'_(\d+)', parts[1])[0]), []) if k == 'assign' for d in [ob.rhs.strip()] if 'Direction::' in d}
                    d = 'Reverse' if any('Direction::Reverse' in x for x in dirs) else 'Forward' if any('Direction::Forward' in x for x in dirs) else None
                    skip = parts[2]
                    cases[(d, skip)] = (c, du, parts[0], st)
    ctx.floor('C13.r5', 'build_query_options (direction, skip) cases', len(cases), 4)
    for key in (('Forward', 'const 0_usize'), ('Reverse', 'const 0_usize'), ('Forward', 'const 1_usize'), ('Reverse', 'const 1_usize')):
        if key not in cases:
            raise Inconclusive('build_query_options: case %r not found (have %r)' % (key, sorted(cases)))
    # ascending, no cursor: exactly the prefix
    c, du, k0, st = cases[('Forward', 'const 0_usize')]
    org = du.origins(k0, stop_at_calls=True)
    calls = sorted({o[1] for o in org if o[0] == 'call'})
    ctx.ob('C13.r5', c.name, 'ascending un-cursored iteration starts at the search prefix itself', calls == ['<Vec as Clone>::clone'] and not any(o[0] == 'op' for o in org), at=st.span, got=calls)
    # cursor cases: start at the cursor key
    for d in ('Forward', 'Reverse'):
        c, du, k0, st = cases[(d, 'const 1_usize')]
        org = du.origins(k0, stop_at_calls=False)
        ctx.ob('C13.r5', c.name, 'cursored iteration (%s) starts at the cursor key' % d, any(o[0] == 'call' and o[1].endswith('JsonBytes::as_bytes') for o in org), at=st.span)
    # descending, no cursor
    c, du, k0, st = cases[('Reverse', 'const 0_usize')]
    org = du.origins(k0, stop_at_calls=True)
    calls = sorted({o[1] for o in org if o[0] == 'call'})
    concat = [t for b, t in P.call_sites(c, lambda k, t: k == 'slice::concat')]
    fe = [t for b, t in P.call_sites(c, lambda k, t: 'from_elem' in t.callee)]
    clone = [t for b, t in P.call_sites(c, lambda k, t: k == '<Vec as Clone>::clone')]
    shape = False
    n_min = None
    if len(concat) == 1 and len(fe) == 1 and len(clone) == 1 and any('concat' in x for x in calls):
        arr = du.origins(concat[0].args[0], stop_at_calls=True)
        elems = sorted({o[1] for o in arr if o[0] == 'call'})
        # the array literal: [clone(prefix), from_elem(0xff, n)] in this order
        lit = [ob.rhs.strip() for l, ds in du.defs.items() for (k, b, ob) in ds if k == 'assign' and re.match(r'^\[(move |copy )?_\d+, (move |copy )?_\d+\]$', ob.rhs.strip())]
        order_ok = False
        if len(lit) == 1:
            a, b2 = re.findall(r'_(\d+)', lit[0])
            order_ok = clone[0].dest.strip() == '_' + a and fe[0].dest.strip() == '_' + b2
        shape = order_ok and fe[0].args[0].strip() in ('const u8::MAX', 'const 255_u8', 'const 255u8')
        # padding length: n = C - args_len (+ k)
        n_org = du.origins(fe[0].args[1], stop_at_calls=True)
        ops = sorted(o[1] for o in n_org if o[0] == 'op')
        addk = 0
        if ops == ['CheckedSub'] or ops == ['Sub']:
            pass
        elif sorted(set(ops)) in (['CheckedAdd', 'CheckedSub'], ['Add', 'Sub']):
            ks = [int(m.group(1)) for o in n_org if o[0] == 'const' for m in [re.match(r'const (\d+)_usize', o[1])] if m]
            addk = min(ks) if ks else 0
        else:
            shape = False
        # the guard on args_len in the parent: Gt (accepts args_len == C) or Ge (args_len < C)
        gts = [x for x in ctx.cmp_stmts(BQ) if x[2] in ('Gt', 'Ge') and x[4].strip() == 'const _']
        if len(gts) == 1:
            n_min = (0 if gts[0][2] == 'Gt' else 1) + addk
    ctx.ob('C13.r5', c.name, 'descending un-cursored iteration starts at prefix ++ [0xff; n] (an upper bound of the prefix range)', shape, at=st.span, got=calls)
    if shape and n_min is not None:
        ctx.ob('C13.r5', c.name, 'the 0xff padding is non-empty for every accepted args_len (n = MAX_PREFIX_SEARCH_SIZE - args_len >= 1)', n_min >= 1, at=fe[0].span, n_min=n_min)
    elif shape:
        raise Inconclusive('build_query_options: args_len bound not recognised')
    if shape:
        # prefix ++ [0xff; MAX - args_len + k] is >= every key of the prefix range only if no indexed script has args that continue
        # past MAX_PREFIX_SEARCH_SIZE bytes (a longer all-0xff continuation sorts above the padded key): the bound has to be
        # enforced where scripts enter the index.
        SS = ctx.body('<BlockFilterRpcImpl as BlockFilterRpc>::set_scripts')
        bounded = False
        for b in [SS] + P.closures_of(SS):
            bdu = DefUse(b)
            for x in ctx.cmp_stmts(b):
                if x[2] in ('Gt', 'Ge', 'Lt', 'Le') and any(o[0] == 'call' and o[1].endswith('Script::args') for opnd in (x[3], x[4]) for o in bdu.origins(opnd, stop_at_calls=False)):
                    bounded = True
        ctx.ob('C13.r5', c.name, 'the 0xff padding bounds every index key: indexed script args are limited to MAX_PREFIX_SEARCH_SIZE where scripts are registered (set_scripts)',
               bounded, at=fe[0].span)
