"""Helper-extraction / rename tolerance at program level.

The rules name functions (handlers, checkers, writers) of the *reviewed* tree.  The two refactors that move code between
functions without changing behaviour are (a) extracting part of a reviewed function into a new private helper and (b) renaming
a function.  `rules/functions_reference.json` is the vocabulary of the reviewed tree (every non-generated function with its
parameter / return types).  After loading a program:

 * a function that the vocabulary does not know, and that replaces exactly one vocabulary function that disappeared with the
   same signature and owner, is treated as that function (renamed);
 * every other unknown function that is only ever *called* (never passed as a value, not recursive, not a trait method) is
   a new helper: it is inlined at MIR level into each of its callers — with its closures re-attached to the caller and its
   debug names carried over — and removed from the program, so that every engine sees the reviewed functions with the code
   they contain today, wherever the source put it.

Nothing is dropped: the inlined code is analysed in the context of each caller (which is stronger than analysing the helper
alone: its guards are seen together with the caller's).  A helper that cannot be inlined (size / depth bound, passed as a
value) stays a function of its own and is analysed as such.  What was done is recorded in `prog.normalised` and in the evidence."""
import json
import os
import re

from . import mir
from . import inline as _inl

REF = os.path.join(os.path.dirname(os.path.dirname(os.path.abspath(__file__))), 'rules', 'functions_reference.json')
_GENERATED = re.compile(r'^<(derive|impl)@|^to_delegate\b|^MapErr<|::promoted\[')


def _sig(b):
    norm = lambda t: re.sub(r"'\w+", "'_", re.sub(r'\s+', ' ', t or ''))
    return [[norm(t) for _, t in b.params], norm(b.ret)]


def _top_level(prog):
    return [b for b in prog.bodies if b.promoted is None and '{closure' not in (b.name or '') and b.file and '/tests/' not in b.file
            and not _GENERATED.search(b.name or '')]


def generate(prog):
    ref = {}
    for b in _top_level(prog):
        ref.setdefault(b.name, []).append(_sig(b))
    return ref


def _owner(name):
    # 'Type::method' -> 'Type'; '<T as Trait>::m' -> '<T as Trait>'; free function -> ''
    k = name.rfind('::')
    return name[:k] if k > 0 else ''


def _reindex(prog):
    prog.by_name = {}
    for b in prog.bodies:
        prog.by_name.setdefault(b.name, []).append(b)
    prog._mentions = None
    prog._callers = None
    prog._cfg = {}
    if hasattr(prog, '_closure_by_span'):
        prog._closure_by_span = None


def _rename(prog, old, new):
    for b in prog.bodies:
        n = b.name or ''
        if n == old or n.startswith(old + '::{') or n.startswith(old + '::promoted'):
            b.name = new + n[len(old):]
    mir.KEY_ALIASES[old] = new


def _called_only(prog, name):
    """True when `name` occurs in the program only as the callee of call terminators (never as a function item value)."""
    short = name.split('::')[-1]
    pat = re.compile(r'\b%s\b' % re.escape(short))
    for b in prog.bodies:
        for blk in b.blocks.values():
            for st in blk.stmts:
                if st.kind == 'assign' and st.rhs and pat.search(st.rhs) and ('::' + short) in st.rhs and not st.rhs.startswith('const "'):
                    if mir.callee_key(mir.strip_generics(re.sub(r'^(const|move|copy) ', '', st.rhs.strip()))) == name:
                        return False
            t = blk.term
            if t.kind == 'call' and t.args:
                for a in t.args:
                    if ('::' + short) in a and not a.strip().startswith('const "') and mir.callee_key(re.sub(r'^(const|move|copy) ', '', a.strip())) == name:
                        return False
    return True


def apply(prog):
    prog.normalised = {'renamed': {}, 'inlined': {}, 'kept_new': []}
    mir.KEY_ALIASES.clear()
    if not os.path.exists(REF) or os.environ.get('VERIF_NO_NORMALISE'):
        return prog.normalised
    with open(REF) as f:
        ref = json.load(f)
    cur = {}
    for b in _top_level(prog):
        cur.setdefault(b.name, []).append(b)
    new = [n for n in cur if n not in ref]
    gone = [n for n in ref if n not in cur]
    if not new:
        return prog.normalised
    # (1) renames: unique signature + owner match between a new and a disappeared function
    used = set()
    for n in sorted(new):
        if len(cur[n]) != 1:
            continue
        sg = _sig(cur[n][0])
        cands = [g for g in gone if g not in used and sg in ref[g] and _owner(g) == _owner(n)]
        if len(cands) == 1 and len([m for m in new if len(cur[m]) == 1 and _sig(cur[m][0]) == sg and _owner(m) == _owner(n)]) == 1:
            used.add(cands[0])
            prog.normalised['renamed'][n] = cands[0]
    for n, g in prog.normalised['renamed'].items():
        _rename(prog, n, g)
    if prog.normalised['renamed']:
        _reindex(prog)
    helpers = [n for n in new if n not in prog.normalised['renamed'] and len(cur[n]) == 1 and not n.startswith('<')]
    # only helpers that are called somewhere from the crate and never used as values
    helpers = [n for n in helpers if _called_only(prog, n)]
    hset = set(helpers)
    if not hset:
        prog.normalised['kept_new'] = sorted(n for n in new if n not in prog.normalised['renamed'])
        return prog.normalised
    callers = []
    for b in prog.bodies:
        if b.promoted is not None:
            continue
        top = b.name.split('::{closure')[0]
        if top in hset:
            continue                      # helpers (and their closures) are consumed, not rewritten
        if any(k in hset for _, k, _t in prog.call_keys(b)):
            callers.append(b)
    inlined_anywhere = set()
    for b in callers:
        log = []
        nb = _inl.inline(prog, b, max_depth=6, max_blocks=4000, only=lambda k: k in hset, log=log, carry_debug=True)
        done = getattr(nb, '_inlined', [])
        if not done:
            continue
        # re-attach the closures of the inlined helpers to the caller: fresh ordinals after the caller's own
        parent = b.name
        # promoted constants (`&[0]`, `&None`) of an inlined helper are described as "a promoted constant of <function>": they
        # are the caller's now
        for blk in nb.blocks.values():
            for st in list(blk.stmts) + [blk.term]:
                ex = getattr(st, 'extra', None)
                if ex and any('promoted[' in e for e in ex):
                    st.extra = [re.sub(r'Unevaluated\((%s)(?=,)' % '|'.join(re.escape(h) for h in set(done)), 'Unevaluated(' + parent, e)
                                if 'promoted[' in e else e for e in ex]
        own = [int(m.group(1)) for c in prog.bodies for m in [re.match(re.escape(parent) + r'::\{closure#(\d+)\}$', c.name or '')] if m]
        nxt = max(own + [-1]) + 1
        for h in dict.fromkeys(done):
            tops = sorted({int(m.group(1)) for c in prog.bodies for m in [re.match(re.escape(h) + r'::\{closure#(\d+)\}', c.name or '')] if m})
            for k in tops:
                pre = '%s::{closure#%d}' % (h, k)
                for c in list(prog.bodies):
                    if c.name == pre or (c.name or '').startswith(pre + '::'):
                        c2 = _inl.clone_body(c) if c.promoted is None else c
                        if c.promoted is not None:
                            import copy
                            c2 = copy.copy(c)
                        c2.name = '%s::{closure#%d}%s' % (parent, nxt, c.name[len(pre):])
                        c2.file = b.file if c.file == b.file else c.file
                        c2._from_helper = h
                        prog.bodies.append(c2)
                nxt += 1
        nb.name = b.name
        nb._orig_blocks = len([1 for k in b.blocks.values() if not k.cleanup])
        idx = prog.bodies.index(b)
        prog.bodies[idx] = nb
        prog.normalised['inlined'].setdefault(b.name, [])
        prog.normalised['inlined'][b.name] += sorted(set(done))
        inlined_anywhere.update(done)
    # remove consumed helpers (only when every call of them was inlined)
    _reindex(prog)
    still_called = set()
    for b in prog.bodies:
        top = (b.name or '').split('::{closure')[0]
        if top in hset:
            continue
        for _, k, _t in prog.call_keys(b):
            if k in hset:
                still_called.add(k)
    drop = {h for h in inlined_anywhere if h not in still_called}
    if drop:
        prog.bodies[:] = [b for b in prog.bodies if (b.name or '').split('::{closure')[0].split('::promoted')[0] not in drop]
    _reindex(prog)
    prog.normalised['kept_new'] = sorted(n for n in new if n not in prog.normalised['renamed'] and n not in drop)
    return prog.normalised
