"""Structure-free facts of an exit census: what a function *decides*, *rejects with* and *does*, independent of how the
source arranges it (loops vs iterator adaptors, closures vs inline code, combinators vs `match`, helper boundaries, flags).

The exit census (engine.exits) describes every exit with the conditions on its path.  Two behaviour-preserving versions of a
function can differ in that description (a `for_each` closure became a `for` loop, `map(..).unwrap_or(true)` became `map_or`,
a predicate moved into a `bool` helper whose result is tested later).  What they cannot differ in is the set of

   decisions   primitive comparisons / variant tests, each identified by its operator pair {op, negated op} and the sets of
               non-plumbing leaves (callee keys, constants, parameters, field names, arithmetic operators) of its two sides
   results     the distinct rejection / acceptance labels (status codes, `None`, `false` are too generic and are skipped)
   effects     state-changing calls and writes: callee key + non-plumbing leaves of the arguments

`lost(reviewed, actual)` lists the reviewed facts that the current function no longer contains.  The census rule reports a
deviation only when something was lost (a check removed, an operator or operand changed, a rejection or an effect dropped, an
argument taken from elsewhere); a pure re-arrangement loses nothing.  What this deliberately does not see — a check that is
still made but no longer on the path of an effect — is the business of the explicit guard / order / lock rules."""
import re

_PLUMBING = re.compile(
    r'^(?:<[^>]*>::)?(?:bool|Option|Result|Iter|IntoIter|Map|Filter|FilterMap|Zip|Rev|Enumerate|Skip|SkipWhile|Take|TakeWhile|Chain|Cloned|Copied|Peekable|'
    r'Windows|Chunks|ChunksExact|Flatten|FlatMap|Values|Keys|IntoValues|IntoKeys|Range|RangeInclusive|Vec|VecDeque|slice|array|T|I|F|'
    r'Iterator|IntoIterator|DoubleEndedIterator|ControlFlow|Try|FromResidual|Deref|DerefMut|AsRef|Borrow|Clone|From|Into|TryInto|TryFrom|'
    r'\w*Iterator|\w*VecReader|\w*VecReaderIterator|\w*VecIterator)::'
    r'(?:then_some|then|map|map_or|map_or_else|map_err|and_then|or_else|ok_or|ok_or_else|ok|err|unwrap_or|unwrap_or_else|unwrap_or_default|unwrap|expect|'
    r'is_some|is_none|is_ok|is_err|as_ref|as_mut|as_deref|cloned|copied|take|iter|iter_mut|into_iter|next|next_back|rev|zip|enumerate|'
    r'collect|filter|filter_map|find|find_map|for_each|all|any|position|skip|skip_while|take_while|chain|fold|count|last|first|nth|peekable|'
    r'flatten|flat_map|windows|chunks|into_values|values|keys|deref|deref_mut|borrow|clone|from|into|try_into|try_from|branch|from_residual|'
    r'to_vec|to_owned|as_slice|index|index_mut|get|len|is_empty|new|with_capacity|contains|push|extend|insert)$')
_TOKEN = re.compile(r'"(?:[^"\\]|\\.)*"|\bc\d+\.arg\d+\b|<[^<>]*? as [^<>]*?>(?:::\w+)+|[A-Za-z_]\w*(?:::[A-Za-z_]\w*)+|\b-?\d+_[iu](?:\d+|size)\b|\barg\d+\b|\bc\d+\b|\.[a-z_]\w*\b|'
                    r'\b(?:Add|Sub|Mul|Div|Rem|Shl|Shr|BitAnd|BitOr|BitXor|Not|Neg)\b|\b[A-Z][A-Z0-9_]{2,}\b')
ABBR = {}          # digest of an abbreviated description -> its leaves (filled by engine.exits and from the reviewed table)
ABBR_TEXT = {} if __import__('os').environ.get('VERIF_ABBR_TEXT') else None   # debugging aid (tools/facts_diff.py)
ABBR_DEC = {}      # digest -> decisions made inside the abbreviated text (current tree only; filled by engine.exits)
_GENERIC_LABELS = {'Option::None', 'None', 'false', 'true', '()', 'Ok(())', 'const false', 'const true'}
_REL = [(' <= ', 'le'), (' >= ', 'ge'), (' == ', 'eq'), (' != ', 'ne'), (' < ', 'lt'), (' > ', 'gt')]
_PAIR = {'lt': 'lt/ge', 'ge': 'lt/ge', 'le': 'le/gt', 'gt': 'le/gt', 'eq': 'eq/ne', 'ne': 'eq/ne'}
_FLIP = {'lt': 'gt', 'gt': 'lt', 'le': 'ge', 'ge': 'le', 'eq': 'eq', 'ne': 'ne'}
_OPEN, _CLOSE = '([{', ')]}'
_MARK = re.compile(r'…#[0-9a-f]{8,12}')
_PAIRC = {'(': ')', '[': ']', '{': '}'}


def _strip_next(text):
    """`X::next(<how the iterator was built>)` -> `X::next()`: an element is an element, wherever the source shows its iterator."""
    out, i = [], 0
    for m in re.finditer(r'::next(?:_back)?\(', text):
        if m.start() < i:
            continue
        out.append(text[i:m.end()])
        depth, j = 1, m.end()
        while j < len(text) and depth:
            depth += text[j] in _OPEN
            depth -= text[j] in _CLOSE
            j += 1
        out.append(')')
        i = j
    out.append(text[i:])
    return ''.join(out)


def _strip_conditions(text):
    """`cond.then_some(v)` / `cond.then(|| v)` -> the value only; `opt.filter(|x| test)` -> the option only: the CONDITION under
    which a value is kept is a decision (found by decisions()), not part of where the value comes from -- written as an `if`
    it never was in the value's description."""
    for pat, drop_first in ((r'bool::then(?:_some)?\(', True), (r'Option::filter\(', False)):
        out, i = [], 0
        for m in re.finditer(pat, text):
            if m.start() < i:
                continue
            depth, j, start = 1, m.end(), m.end()
            cut = None
            while j < len(text) and depth:
                ch = text[j]
                if ch in _OPEN:
                    depth += 1
                elif ch in _CLOSE:
                    depth -= 1
                elif ch == ',' and depth == 1 and cut is None and text[j:j + 2] == ', ':
                    cut = j
                j += 1
            if cut is None:
                continue
            out.append(text[i:m.end()])
            out.append(text[cut + 2:j - 1] if drop_first else text[start:cut])
            out.append(')')
            i = j
        out.append(text[i:])
        text = ''.join(out)
    return text


def leaves(text):
    """Leaf tokens of a description.  Parameters carry their number of occurrences (`arg4*3`): which parameter feeds an
    expression how often is the one thing a set of names cannot tell (`length(arg4)` vs `length(arg1)` in a long formula)."""
    out = set()
    argc = {}
    if text and ('bool::then' in text or 'Option::filter(' in text):
        text = _strip_conditions(rebalance(text))
    for m in _MARK.finditer(text or ''):
        for t in ABBR.get(m.group(0)[2:], frozenset()):
            ma = re.fullmatch(r'(arg\d+)\*(\d+)', t)
            if ma:
                argc[ma.group(1)] = argc.get(ma.group(1), 0) + int(ma.group(2))
            else:
                out.add(t)
    # the cut-off token in front of an abbreviation mark is not a leaf (it is in the abbreviation's own leaves)
    text = re.sub(r'[\w:]*(?=…#)', '', text or '')
    for m in _TOKEN.finditer(_strip_conditions(_strip_next(text))):
        t = m.group(0)
        if t.startswith('"'):
            continue                                  # message texts are not behaviour
        if re.fullmatch(r'c\d+(?:\.arg\d+)?', t):
            # (a marker 'c?' for "provenance hidden behind the closure boundary", with a relaxed comparison for such operands, was
            # tried and withdrawn: it let the moved check of seeded C01-6 pass as the reviewed one; the code paths for the marker
            # below are inert)
            continue                                  # closure nesting marker / closure parameter
        if '::' in t and _PLUMBING.match(t):
            continue
        if re.fullmatch(r'arg\d+', t):
            argc[t] = argc.get(t, 0) + 1
            continue
        out.add(t)
    for k, v in argc.items():
        out.add('%s*%d' % (k, v))
    return frozenset(out)

def rebalance(text):
    """An abbreviated sub-description (`first 80 characters…#digest`) leaves the brackets it opened unclosed; close them right
    after the digest so that the surrounding relation is still found at bracket depth 0."""
    if '…#' not in (text or ''):
        return text
    out, stack, i = [], [], 0
    while i < len(text):
        m = _MARK.match(text, i)
        if m:
            out.append(m.group(0))
            start = len(''.join(out)) - len(m.group(0)) - 80
            closing = []
            while stack and stack[-1][1] >= start:
                closing.append(_PAIRC[stack.pop()[0]])
            out.append(''.join(closing))
            i = m.end()
            continue
        ch = text[i]
        if ch in _OPEN:
            stack.append((ch, len(''.join(out))))
        elif ch in _CLOSE and stack:
            stack.pop()
        out.append(ch)
        i += 1
    return ''.join(out)


def _groups(text):
    """Yield (depth, start, end) of every bracketed group and the whole text (depth 0)."""
    stack = []
    yield 0, 0, len(text)
    for i, ch in enumerate(text):
        if ch in _OPEN:
            stack.append(i)
        elif ch in _CLOSE and stack:
            s = stack.pop()
            yield len(stack) + 1, s + 1, i


def _top_split(seg, seps):
    """Split `seg` on separators at bracket depth 0."""
    parts, depth, cur, i = [], 0, [], 0
    while i < len(seg):
        ch = seg[i]
        if ch in _OPEN:
            depth += 1
        elif ch in _CLOSE:
            depth -= 1
        if depth == 0:
            hit = next((s for s in seps if seg.startswith(s, i)), None)
            if hit:
                parts.append(''.join(cur))
                cur = []
                i += len(hit)
                continue
        cur.append(ch)
        i += 1
    parts.append(''.join(cur))
    return parts


def _top_rel(seg):
    depth = 0
    for i, ch in enumerate(seg):
        if ch in _OPEN:
            depth += 1
        elif ch in _CLOSE:
            depth -= 1
        elif depth == 0 and ch == ' ':
            for sym, op in _REL:
                if seg.startswith(sym, i):
                    # `<` that opens a qualified path (`<T as Trait>`) is not a relation: require a space on both sides (sym has)
                    return seg[:i], op, seg[i + len(sym):]
    return None


def decisions(text):
    """All primitive decisions inside a description, at any nesting depth."""
    out = set()
    for m in _MARK.finditer(text or ''):
        out |= ABBR_DEC.get(m.group(0)[2:], frozenset())
    text = rebalance(text or '')
    for _d, s, e in _groups(text):
        for seg in _top_split(text[s:e], [', ', ' | ', ' ; ', ' & ', '] ', ' := ']):
            seg = seg.strip()
            r = _top_rel(seg)
            if r:
                a, op, b = r
                la, lb = leaves(a), leaves(b)
                # an operand that is exactly an anonymous constant (`x == _`: a literal / associated constant such as u32::MAX) is a
                # constant, not "unknown context": it must not be taken for any other operand
                if a.strip() == '_':
                    la = frozenset({'const_'})
                if b.strip() == '_':
                    lb = frozenset({'const_'})
                if not (la - {'c?'}) and not (lb - {'c?'}) and a.strip() not in ('true', 'false') and b.strip() not in ('true', 'false'):
                    # both operands are elements handed to an adaptor closure (`.find(|(a, b)| a != b)`): the test is made, what it
                    # is made on is in the iterator the closure is applied to
                    if op in ('eq', 'ne') and re.search(r'\bc\d+\.arg\d+', a) and re.search(r'\bc\d+\.arg\d+', b):
                        out.add(('cmp', 'eq/ne', frozenset(), frozenset()))
                    continue
                # comparisons with a literal boolean are wrappers of the inner decision; a comparison METHOD (`U256::lt(a, b)`,
                # `Byte32::eq(a, b)`) wrapped that way is a decision between its two arguments
                if a.strip() in ('true', 'false') or b.strip() in ('true', 'false'):
                    inner = (b if a.strip() in ('true', 'false') else a).strip()
                    mm = re.match(r'^(?:<[^<>]*? as [^<>]*?>|[A-Za-z_]\w*)(?:::\w+)*::(lt|le|gt|ge|eq|ne)\((.*)\)$', inner, re.S)
                    if mm:
                        parts = _top_split(mm.group(2), [', '])
                        if len(parts) == 2:
                            la, lb, op = leaves(parts[0]), leaves(parts[1]), mm.group(1)
                            if op in ('eq', 'ne'):
                                if sorted(lb) < sorted(la):
                                    la, lb = lb, la
                                out.add(('cmp', 'eq/ne', la, lb))
                            elif op in ('lt', 'ge'):
                                out.add(('cmp', 'lt/ge', la, lb))
                            else:
                                out.add(('cmp', 'lt/ge', lb, la))
                    else:
                        # a boolean predicate of the crate / a library (`is_parent_of(..) == true`, `if_long_fork_detected(..) == false`)
                        hd = re.match(r'^\s*((?:<[^<>]*? as [^<>]*?>|[A-Za-z_]\w*)(?:::\w+)+)\(', inner)
                        if hd and not _PLUMBING.match(hd.group(1)):
                            out.add(('is', 'true/false', leaves(inner)))
                        elif not hd and re.fullmatch(r'[\w.\[\]* ()]+', inner) and re.search(r'\.\d+$', inner):
                            # a stored flag (a tuple / struct field read as a boolean)
                            out.add(('is', 'flag', frozenset({re.sub(r'^.*?((?:\.\d+)+)$', r'\1', inner)}) | leaves(inner)))
                    continue
                # an unsigned length compared with zero: `len > 0`, `0 < len`, `len >= 1`, `len < 1`, `len <= 0` are the emptiness
                # test `len == 0` / `len != 0`
                _z = lambda t: re.fullmatch(r'0_(?:usize|u\d+)', t.strip()) is not None
                _o = lambda t: re.fullmatch(r'1_(?:usize|u\d+)', t.strip()) is not None
                _ln = lambda t: re.search(r'::len\(', t) is not None
                if (op in ('gt', 'le') and _z(b) and _ln(a)) or (op in ('lt', 'ge') and _z(a) and _ln(b)):
                    op = 'ne'
                elif (op in ('ge', 'lt') and _o(b) and _ln(a)) or (op in ('le', 'gt') and _o(a) and _ln(b)):
                    op = 'ne'
                    if _o(b):
                        lb = leaves(re.sub(r'^1_', '0_', b.strip()))
                    else:
                        la = leaves(re.sub(r'^1_', '0_', a.strip()))
                # one decision = a test and its negation: `x < y`, `x >= y` (same test, other branch), `y > x`, `y <= x`
                # all become lt(x, y); `x <= y` / `x > y` / `y >= x` / `y < x` become lt(y, x); == and != become eq{x, y}
                if op in ('eq', 'ne'):
                    if sorted(lb) < sorted(la):
                        la, lb = lb, la
                    out.add(('cmp', 'eq/ne', la, lb))
                elif op in ('lt', 'ge'):
                    out.add(('cmp', 'lt/ge', la, lb))
                else:
                    out.add(('cmp', 'lt/ge', lb, la))
                continue
            mm = re.match(r'^(?:<[^<>]*? as [^<>]*?>|[A-Za-z_]\w*)(?:::\w+)*::(lt|le|gt|ge|eq|ne)\((.*)\)$', seg, re.S)
            if mm:
                # the body of a predicate closure (`fn{Byte32::ne(c1.arg2.0, c1.arg2.1)}`): a comparison method is a decision
                parts = _top_split(mm.group(2), [', '])
                if len(parts) == 2:
                    la, lb, op = leaves(parts[0]), leaves(parts[1]), mm.group(1)
                    if (la - {'c?'}) or (lb - {'c?'}) or all(re.search(r'\bc\d+\.arg\d+', x) for x in parts):
                        if not (la - {'c?'}) and not (lb - {'c?'}):
                            la = lb = frozenset()
                        if op in ('eq', 'ne'):
                            if sorted(lb) < sorted(la):
                                la, lb = lb, la
                            out.add(('cmp', 'eq/ne', la, lb))
                        elif op in ('lt', 'ge'):
                            out.add(('cmp', 'lt/ge', la, lb))
                        else:
                            out.add(('cmp', 'lt/ge', lb, la))
                continue
            m = re.search(r'^(.*) is (Some|None|Ok|Err|Break|Continue)$', seg)
            if m and m.group(2) in ('Some', 'None') and re.match(r'^\s*\(?\s*(?:<[^<>]*? as [^<>]*?>|[A-Za-z_]\w*)(?:::\w+)*::next(?:_back)?\(', m.group(1)):
                # the test that ends (or continues) a loop over an iterator: only used for "an exit inside the loop" (bypassed)
                lv = set()
                for mm in _TOKEN.finditer(m.group(1)):
                    t = mm.group(0)
                    if not t.startswith('"') and not re.fullmatch(r'c\d+(?:\.arg\d+)?', t) and not ('::' in t and _PLUMBING.match(t)):
                        lv.add(t)
                out.add(('loop', frozenset(lv)))
                continue
            if m:
                head = re.match(r'\s*\(?\s*((?:<[^<>]*? as [^<>]*?>|[A-Za-z_]\w*)(?:::\w+)*)\(', m.group(1))
                if head and not _PLUMBING.match(head.group(1)) and '::' in head.group(1):
                    out.add(('is', 'some/none' if m.group(2) in ('Some', 'None') else 'ok/err', leaves(m.group(1))))
    return out


def _effect(label):
    m = re.match(r'^(?:in closure: )?call ([^(]+)\((.*)\)$', label, re.S)
    if m:
        return ('effect', m.group(1).strip(), leaves(m.group(2)))
    m = re.match(r'^(?:in closure: )?(?:write|mutate) (.*)$', label, re.S)
    if m:
        return ('write', leaves(m.group(1)))
    return None


def facts(exits):
    F = set()
    for e in exits:
        label = e.get('label', '')
        body = re.sub(r'^in closure: ', '', label)
        ef = _effect(label)
        if ef:
            if (ef[0] == 'effect') or ef[1]:
                F.add(ef)
        elif e.get('cls') in ('reject', 'accept', 'exact'):
            core = body.strip()
            if core not in _GENERIC_LABELS:
                lv = leaves(core)
                if lv:
                    F.add(('result', lv))
        F |= decisions(body)
        for a in list(e.get('full', [])) + list(e.get('trigger', [])):
            F |= decisions(a)
    return F


_ARG = re.compile(r'arg\d+(?:\*\d+)?$')
_OPS = re.compile(r'^(?:const_|Add|Sub|Mul|Div|Rem|Shl|Shr|BitAnd|BitOr|BitXor|Not|Neg|-?\d+_[iu](?:\d+|size)|[A-Z][A-Z0-9_]{2,}|Ord::(?:min|max)|'
                  r'\w+::(?:saturating|checked|wrapping|overflowing)_\w+|\w+::(?:pow|abs_diff|leading_zeros|trailing_zeros))$')


def _classes(x):
    x = set(x) - {'c?'}
    args = {t for t in x if _ARG.match(t)}
    ops = {t for t in x if _OPS.match(t)}
    return args, ops, set(x) - args - ops


def _sim(a, b):
    """Two operand leaf sets describe the same operand: identical arithmetic / constants; the named leaves (callee keys, fields)
    of one contained in the other's and overlapping (context such as where an element or a captured value comes from is visible
    in a loop and hidden behind a closure parameter / helper parameter); parameters likewise."""
    aa, ao, an = _classes(a)
    ba, bo, bn = _classes(b)
    fa_, fb_ = {x for x in an if x.startswith('.')}, {x for x in bn if x.startswith('.')}
    if ao != bo or fa_ != fb_:
        # identical arithmetic / constants, and: which field of a value is compared is part of the operand, not context --
        # unless one side is computed from a closure parameter (`|n| n.checked_mul(M)`: where `n` comes from is hidden behind
        # the closure boundary) and the other side shows it with its context (`get(..8)`, the fields it was read through)
        # (only for an operand that is computed from closure parameters ALONE: no function parameter in it)
        if not (('c?' in a and not aa and an <= bn and ao <= bo and fa_ <= fb_) or ('c?' in b and not ba and bn <= an and bo <= ao and fb_ <= fa_)):
            return False
    if not (an <= bn or bn <= an) or (an and bn and not (an & bn)):
        return False
    return aa <= ba or ba <= aa


_CONTAINERS = frozenset({'HashMap::new', 'HashSet::new', 'BTreeMap::new', 'BTreeSet::new', 'HashMap::with_capacity', 'HashSet::with_capacity',
                         'HashMap::default', 'HashSet::default', 'LinkedHashMap::new', 'BinaryHeap::new'})


def _subsim(core, other):
    """`core` (reviewed argument / value leaves) is still what `other` is built from."""
    ca, co, cn = _classes(core)
    oa, oo, on = _classes(other)
    if co != oo:
        # a value read out of a container that the current code fills by mutation in a loop (`let mut m = HashMap::new(); for ..
        # { *m.entry(k).or_default() += 1 }`) shows the constructor only -- what flows into it through the heap is not tracked
        # (DESIGN 2.3 (ii)) -- where the reviewed adaptor chain (`fold(HashMap::new(), ..)`) showed its inputs
        if not (on < cn and oo <= co and (on & _CONTAINERS)):
            return False
    return cn <= on or bool(on <= cn and on)


def _covered(f, actual):
    if f in actual:
        return True
    if f[0] == 'cmp':
        for g in actual:
            if g[0] == 'cmp' and g[1] == f[1]:
                if (_sim(f[2], g[2]) and _sim(f[3], g[3])) or (f[1] == 'eq/ne' and _sim(f[2], g[3]) and _sim(f[3], g[2])):
                    return True
        return False
    if f[0] == 'is':
        return any(g[0] == 'is' and g[1] == f[1] and _sim(f[2], g[2]) for g in actual)
    if f[0] == 'loop':
        return any(g[0] == 'loop' and _sim(f[1], g[1]) for g in actual)
    if f[0] == 'result':
        # the same value may now be produced with extra context, or be performed as a call of its own (closure -> loop)
        for g in actual:
            gl = set(g[1]) if g[0] in ('result', 'write') else (set(g[2]) | {g[1]} if g[0] == 'effect' else None)
            if gl is not None and _subsim(f[1], gl):
                return True
        return False
    if f[0] == 'effect':
        for g in actual:
            if g[0] == 'effect' and g[1] == f[1] and _subsim(f[2], g[2]):
                return True
            if g[0] == 'result' and f[1] in g[1] and _subsim(f[2], g[1]):
                return True
        return False
    if f[0] == 'write':
        return any(g[0] == 'write' and _subsim(f[1], g[1]) for g in actual)
    return False


def _effect_seqs(exits):
    out = {}
    for e in exits:
        ef = _effect(e.get('label', ''))
        if ef and ef[0] == 'effect':
            out.setdefault((ef[1], ef[2]), set()).add(value_tokens(e.get('label', ''), strip=False))
    return out


def lost(reviewed_exits, actual_exits):
    fr, fa = facts(reviewed_exits), facts(actual_exits)
    out = [f for f in fr if f[0] != 'loop' and not _covered(f, fa)]
    # the same call with the same leaves but the arguments in another order / place (swapped indices, swapped key parts)
    sr, sa = _effect_seqs(reviewed_exits), _effect_seqs(actual_exits)
    for key, seqs in sr.items():
        if key in sa and not (seqs & sa[key]) and all(len(x) == len(y) for x in seqs for y in sa[key]):
            out.append(('effect', key[0] + ' (same operands, different order)', key[1]))
    return sorted(out, key=repr), len(fr), len(fa)


def render(f):
    s = lambda x: '{' + ', '.join(sorted(x)) + '}'
    if f[0] == 'cmp':
        return 'decision %s between %s and %s' % (f[1], s(f[2]), s(f[3]))
    if f[0] == 'is':
        return 'test %s of %s' % (f[1], s(f[2]))
    if f[0] == 'result':
        return 'result built from %s' % s(f[1])
    if f[0] == 'effect':
        return 'call %s with arguments from %s' % (f[1], s(f[2]))
    if f[0] == 'loop':
        return 'end of the loop over %s' % s(f[1])
    return 'write involving %s' % s(f[1])


def path_decisions(e):
    """Decisions on the path of one exit / effect (nested ones — inside adaptor closures, phi alternatives — included)."""
    D = set()
    for a in list(e.get('full', [])) + list(e.get('trigger', [])):
        D |= decisions(a)
    return D


def _group(e):
    if e.get('cls') == 'accept':
        return 'success'
    if e.get('cls') == 'sink':
        m = re.match(r'^(?:in closure: )?call ([^(]+)\(', e.get('label', ''))
        return 'effect ' + m.group(1).strip() if m else None
    m = re.match(r'^(?:in closure: )?write (.*?) :=', e.get('label', ''))
    if m:
        return 'write ' + re.sub(r'c\d+\.', '', m.group(1).strip())
    if e.get('cls') == 'exact' and not _effect(e.get('label', '')) and not e.get('label', '').startswith('in closure:'):
        return 'return'
    return None


def bypassed(reviewed_exits, actual_exits):
    """Reviewed decisions that EVERY reviewed way to succeed / to perform an effect passes, and that some current way to succeed /
    perform that effect does not pass: [(group, decision, label of the bypassing exit)].  (A new early `return Ok(..)`, a write
    moved in front of its check, a fast path: nothing is lost from the function, but the check is no longer on the path.)"""
    must = {}
    for e in reviewed_exits:
        g = _group(e)
        if g is None:
            continue
        d = path_decisions(e)
        must[g] = d if g not in must else {f for f in must[g] if _covered(f, d)}
    out = []
    everywhere = set()
    for a in actual_exits:
        everywhere |= path_decisions(a)
    for a in actual_exits:
        g = _group(a)
        if g is None or not must.get(g):
            continue
        d = path_decisions(a)
        for f in sorted(must[g], key=repr):
            if g == 'return' and f[0] != 'loop':
                continue                       # plain returns are held to the loops they must finish, nothing else
            if f[0] == 'loop' and not _covered(f, everywhere):
                continue                       # the loop itself was rewritten (adaptor): nothing to bypass
            if not _covered(f, d):
                out.append((g, f, a.get('label', '')))
    return out


_DURABLE = re.compile(r'^(?:in closure: )?call (Batch::(?:put|put_kv|delete)|<DB as (?:Put|Delete)>::(?:put|delete))\(')


def narrowed(reviewed_exits, actual_exits, writes=False):
    """Durable writes (batch / DB put, delete) of a storage function that are now made only under a test the reviewed function
    never made anywhere: the write is skipped where it used to be performed.  (For a rejection an added test is harmless; for a
    write that the index or the recovery depends on it is not: seeded C03-6 skipped the transaction record of a re-indexed
    block when one was stored already -- a placeholder of a fetched transaction.)  [(label, new decision)]"""
    known = set()
    for e in reviewed_exits:
        known |= path_decisions(e)
        known |= decisions(re.sub(r'^in closure: ', '', e.get('label', '')))
    _is = (lambda l: bool(_DURABLE.match(l))) if not writes else (lambda l: bool(_DURABLE.match(l) or re.match(r'^(?:in closure: )?write ', l)))
    rev_eff = [_effect(e.get('label', '')) for e in reviewed_exits if _is(e.get('label', ''))]
    out = []
    for a in actual_exits:
        lab = a.get('label', '')
        if not _is(lab):
            continue
        ef = _effect(lab)
        if ef is None:
            continue
        if ef[0] == 'write':
            if not any(r and r[0] == 'write' and (_subsim(r[1], ef[1]) or _subsim(ef[1], r[1])) for r in rev_eff):
                continue
        elif not any(r and r[0] == 'effect' and r[1] == ef[1] and (_subsim(r[2], ef[2]) or _subsim(ef[2], r[2])) for r in rev_eff):
            continue                       # a new / changed write: reported by lost() on the reviewed side
        for d in sorted(path_decisions(a), key=repr):
            if d[0] in ('cmp', 'is') and d[1] != 'flag' and not _covered(d, known) and not (d[0] == 'cmp' and not d[2] and not d[3]):
                out.append((lab, d))
    return out


def value_tokens(label, strip=True):
    """Ordered non-plumbing tokens of a returned-value description (alternatives `{A | B}` keep their place): two versions
    that compute the result from the same things in the same way agree, whatever the conditions around them look like."""
    out = []
    text = re.sub(r'^in closure: ', '', label or '')
    if strip:
        text = _strip_next(text)
    else:
        out.extend(re.findall(r'\.\d+\b', text))          # tuple positions (enumerate counter vs element)
    # an abbreviated sub-description stands for its full text: its digest is part of the value
    out.extend(sorted(re.findall(r'…#[0-9a-f]{8,12}', text)))
    # (identifying an abbreviation by its leaves instead of its digest made a flipped `a.ge(b)` / `b.le(a)` silent, and lost seeded
    # C14-6, whose rewritten formula has the same leaves: withdrawn)
    for m in _TOKEN.finditer(text):
        t = m.group(0)
        if t.startswith('"') or (strip and re.fullmatch(r'c\d+(?:\.arg\d+)?', t)):
            continue
        if '::' in t and _PLUMBING.match(t):
            continue
        # `a.ge(b)` and `b.le(a)` are one value (new_values compares the tokens order-insensitively; which side is the greater
        # one is held by the decisions)
        t = re.sub(r'::ge$', '::le', re.sub(r'::gt$', '::lt', t))
        out.append(t)
    return tuple(out)


def new_values(reviewed_exits, actual_exits):
    """Successful / value-returning exits whose returned value is not computed like any reviewed one."""
    known = {value_tokens(e.get('label', '')) for e in reviewed_exits if e.get('cls') in ('accept', 'exact')}
    known_sets = [set(k) for k in known]
    out = []
    for a in actual_exits:
        if a.get('cls') not in ('accept', 'exact') or _effect(a.get('label', '')):
            continue
        vt = value_tokens(a.get('label', ''))
        if not vt or vt in known:
            continue
        if all(re.fullmatch(r'-?\d+_[iu](?:\d+|size)|\.\d+', t) for t in vt):
            continue                       # a projection of a closure parameter (`|pair| pair[0]`, `|(cp, _)| cp`): plumbing
        # the same tokens in another order (operands of a commutative description) are the same value
        if any(sorted(vt) == sorted(k) for k in known):
            continue
        out.append(a.get('label', ''))
    return out


def _result_leaves(e):
    core = re.sub(r'^in closure: ', '', e.get('label', '')).strip()
    return leaves(core) if core not in _GENERIC_LABELS else frozenset()


def untriggered(reviewed_exits, actual_exits):
    """Reviewed rejections whose triggering decision no longer triggers a rejection with that result: the decision may still be
    made elsewhere in the function (an inlined helper makes the same test), but THIS rejection now hangs on another test.
    [(label, decision)]"""
    rej = []
    for a in actual_exits:
        if a.get('cls') == 'reject':
            d = set()
            for t in a.get('trigger', []):
                d |= decisions(t)
            rej.append((_result_leaves(a), d))
    out = []
    for r in reviewed_exits:
        if r.get('cls') != 'reject':
            continue
        lab_ = r.get('label', '')
        if lab_.startswith('in closure: ') and lab_[len('in closure: '):].strip() in _GENERIC_LABELS and \
                not any(a.get('label', '').startswith('in closure: ') and a.get('cls') == 'reject' for a in actual_exits):
            # `None` / `false` of an adaptor closure = "skip this element"; written as a loop there is no such exit.  The
            # decision itself is held by lost(), what it guards by bypassed().
            continue
        tr = set()
        for t in r.get('trigger', []):
            tr |= {f for f in decisions(t) if f[0] != 'loop'}
        if not tr:
            continue
        rl = _result_leaves(r)
        ok = False
        for al, ad in rej:
            if (rl == al or (rl and al and _subsim(rl, al))) and all(_covered(f, ad) for f in tr):
                ok = True
                break
        if not ok:
            # the same test may have been split / merged with a neighbour: accept if every trigger decision triggers SOME
            # rejection with this result
            if all(any((rl == al or (rl and al and _subsim(rl, al))) and _covered(f, ad) for al, ad in rej) for f in tr):
                continue
            out.append((r.get('label', ''), sorted(tr, key=repr)[0]))
    return out
