"""Exit census: for one MIR body, every way it can return — the value it returns and the branch
conditions under which that return is taken — rendered line-free through source variable names.

  exit   := an assignment to the return place `_0` (statement or call destination) in a normal block
  label  := description of the returned value (Err(StatusCode::X), Ok((a, b)), Status::ok(), const false, a < b ...)
  atoms  := the branch decisions the exit is (transitively) control dependent on, each rendered as a
            relation over described operands:  `reorg_count != last_n_blocks`, `headers.is_empty() == true`,
            `check_pow(..) is Err`, `Iterator::next(..) is Some` ...

For *rejecting* exits the "earlier check passed" atoms are dropped (an atom whose opposite edge leads
only to rejecting exits), so that inserting a new check in front of an old one does not change the old
one's signature; accepting exits keep all atoms.

The comparison rules (engine.exits.compare) are:
  reject  R reviewed  ->  some actual rejecting exit with the same label has atoms ⊆ atoms(R)      (not narrowed, not removed)
  accept  A actual    ->  some reviewed accepting exit with the same label has atoms ⊆ atoms(A)    (no new way to succeed)
  exact   E reviewed  ->  an actual exit with the same label and the same atoms exists, and no other 'exact' exits
"""
import re
import hashlib
from . import mir
from .panics import Describer
from .defuse import DefUse

_CLOSURE_STACK = []
# error-plumbing wrappers: the value (and whether it is a success or a failure) is that of the first argument
_PASS_CALLS = {'Result::map_err', 'Option::ok_or_else', 'Option::ok_or'}
_MUTATORS = re.compile(r'^(Vec|HashSet|HashMap|BTreeMap|BTreeSet|VecDeque|LinkedHashMap|slice)::(reverse|push|push_back|insert|extend|extend_from_slice|remove|clear|retain|sort|sort_by|sort_by_key|sort_unstable|dedup|truncate|drain|pop|append|swap_remove)$')
_OKV = {'Ok', 'Some', 'Continue'}
_ERRV = {'Err', 'None', 'Break'}
_NEG = {'Eq': 'Ne', 'Ne': 'Eq', 'Lt': 'Ge', 'Ge': 'Lt', 'Gt': 'Le', 'Le': 'Gt'}
_SYM = {'Eq': '==', 'Ne': '!=', 'Lt': '<', 'Le': '<=', 'Gt': '>', 'Ge': '>='}
_TRAIT_CMP = {'eq': 'Eq', 'ne': 'Ne', 'lt': 'Lt', 'le': 'Le', 'gt': 'Gt', 'ge': 'Ge'}


def _rel(op, a, b):
    # canonical: > and >= are flipped, == and != have sorted operands
    if op in ('Gt', 'Ge'):
        op, a, b = ('Lt' if op == 'Gt' else 'Le'), b, a
    if op in ('Eq', 'Ne') and b < a:
        a, b = b, a
    return '%s %s %s' % (a, _SYM[op], b)


def strip_generics(t):
    """Remove balanced <...> groups that follow an identifier or `::` (type arguments), leave comparison text alone."""
    out = []
    i, n = 0, len(t)
    while i < n:
        c = t[i]
        if c == '<' and i > 0 and (t[i - 1].isalnum() or t[i - 1] in '_:'):
            depth, j = 1, i + 1
            while j < n and depth:
                if t[j] == '<':
                    depth += 1
                elif t[j] == '>' and t[j - 1] not in '-=':
                    depth -= 1
                j += 1
            i = j
            if out and out[-1] == ':' and len(out) > 1 and out[-2] == ':':
                # `Path::<T>::Variant` -> `Path::Variant`;  `Path::<T> { .. }` / `Path::<T>(..)` -> `Path { .. }` / `Path(..)`
                out.pop(); out.pop()
            continue
        out.append(c)
        i += 1
    return ''.join(out)


def _project(desc, idx):
    """Component idx of a tuple description, through `{alt | alt}` sets."""
    d = desc.strip()
    if d.startswith('{') and d.endswith('}'):
        alts = mir.split_top(d[1:-1], sep='|')
        pr = [_project(a.strip(), idx) for a in alts]
        if all(x is not None for x in pr):
            return '{' + ' | '.join(sorted(set(pr))) + '}'
        return None
    m = re.match(r'^\[(.*)\] (\(.*\))$', d)
    if m:
        inner = _project(m.group(2), idx)
        return '[%s] %s' % (m.group(1), inner) if inner is not None else None
    if d.startswith('(') and d.endswith(')'):
        parts = mir.split_top(d[1:-1])
        if idx < len(parts):
            return parts[idx].strip()
    return None


class Exits:
    def __init__(self, prog, body, effects=False, sinks=None, cap_env=None, closures=False, guarded=False):
        self.prog, self.body = prog, body
        self.guarded = guarded
        self.closures = closures
        self.cap_env = cap_env or {}
        self.effects = effects
        self.sinks = re.compile(sinks) if sinks else None
        from .cfg import CFG
        self.cfg = CFG(body, diverging_as_exits=True)
        self.D = Describer(body)
        self.du = DefUse(body)
        self._cd = {}
        self._busy = set()
        self._memo = {}
        self._cyc = False

    # ---- describing values -------------------------------------------------------------------
    def call_desc(self, t, depth=0):
        k = mir.callee_key(t.callee)
        if k in ('format', 'fmt::format') or k.startswith('Arguments::') or k.endswith('::to_string') and False:
            return 'fmt(..)'
        k = re.sub(r'^<(&?\w+) as \w+(?:<.*>)?>::', r'\1::', k)
        k = re.sub(r'\[closure@[^\]]*\]', '[closure]', k)      # no source positions in descriptions
        raw_args = list(t.args or [])
        if any(a.strip() == 'const _' for a in raw_args):
            names = iter(re.findall(r'Unevaluated\(([A-Za-z_][\w:]*)', ' '.join(t.extra or [])))
            raw_args = [('const %s' % next(names, '_')) if a.strip() == 'const _' else a for a in raw_args]
        args = [self.val(a, depth + 1) for a in raw_args]
        return '%s(%s)' % (k, ', '.join(args))

    def single_def(self, loc):
        ds = self.du.defs.get(loc, [])
        return ds[0] if len(ds) == 1 else None

    def val(self, op, depth=0):
        """Description of an operand: constants verbatim, named locals by name, temporaries through their definition."""
        op = op.strip()
        if op.startswith('const '):
            return op[6:]
        pl = op.split(' ', 1)[1] if op.startswith(('move ', 'copy ')) else op
        return self.place(pl, depth)

    def place(self, pl, depth=0):
        pl = pl.strip()
        if '{closure' in (self.body.name or '') and re.search(r'(?<![\d_])_1(?!\d)', pl):
            norm = re.sub(r'[()*]', '', pl)
            for name, place in self.body.debug_all:
                if re.sub(r'[()*]', '', place.strip()) == norm and re.search(r'(?<![\d_])_1(?!\d)', place):
                    if name in self.cap_env:
                        return self.cap_env[name]
                    k = re.search(r'_1\)?\.(\d+)', place)
                    return 'capture#%s' % (k.group(1) if k else '?')
        m = re.fullmatch(r'_(\d+)', pl)
        if m:
            return self.local(int(m.group(1)), depth)
        m = re.fullmatch(r'\(\*(.*)\)', pl)
        if m:
            return self.place(m.group(1), depth)
        m = re.match(r'^\((.*) as (\w+)\)$', pl)
        if m:
            return self.place(m.group(1), depth)
        m = re.match(r'^\((.*)\.(\d+): (.*)\)$', pl)
        if m:
            vm = re.fullmatch(r'\((_\d+) as (\w+)\)', m.group(1).strip())
            if vm and m.group(2) == '0' and vm.group(2) in _OKV | _ERRV:
                pay = self.variant_payload(int(vm.group(1)[1:]), 'ok' if vm.group(2) in _OKV else 'err', depth)
                if pay is not None:
                    return pay
            base = self.place(m.group(1), depth)
            # (checked-op tuple).0 is the arithmetic result
            if re.match(r'^(Add|Sub|Mul)\(', base) and m.group(2) == '0':
                return base
            lm = re.fullmatch(r'_(\d+)', m.group(1).strip())
            if lm:
                pr = self.project_local(int(lm.group(1)), int(m.group(2)), depth)
                if pr is not None:
                    return pr
            fname = self.field_name(m.group(1).strip(), int(m.group(2)))
            return '%s.%s' % (base, fname if fname else m.group(2))
        m = re.match(r'^(.*)\[(.*)\]$', pl)
        if m:
            return '%s[%s]' % (self.place(m.group(1), depth), self.val(m.group(2), depth))
        return '_'

    def field_name(self, base_place, idx):
        """Name of field idx of the crate struct that `base_place` has, if that can be told."""
        from . import structs
        bp = base_place
        for _ in range(4):
            m = re.fullmatch(r'\(\*(.*)\)', bp)
            if not m:
                break
            bp = m.group(1).strip()
        ty = None
        m = re.fullmatch(r'_(\d+)', bp)
        if m:
            loc = int(m.group(1))
            ty = self.body.locals.get(loc)
            if ty is None:
                for pl_, pt in self.body.params:
                    if pl_ == loc:
                        ty = pt
        else:
            m = re.match(r'^\(.*\.\d+: (.*)\)$', bp)
            if m:
                ty = m.group(1)
        sn = structs.struct_of(ty) if ty else None
        if not sn:
            return None
        fields = structs.index(self.prog.repo).get(sn)
        if fields and idx < len(fields):
            return fields[idx]
        return None

    def project_local(self, loc, idx, depth, guard=0):
        """Component idx of a tuple-valued local, through moves, success payloads of visible values and alternatives."""
        ds = self.du.defs.get(loc, [])
        if not ds or guard > 12:
            return None
        alts = set()
        for kind, bid, obj in ds:
            if kind != 'assign':
                return None
            rhs = obj.rhs.strip()
            if rhs.startswith('(') and rhs[1:].startswith(('move ', 'copy ', 'const ')):
                parts = mir.split_top(rhs[1:-1])
                if idx >= len(parts):
                    return None
                alts.add(self.val(parts[idx], depth + 1))
                continue
            m = re.fullmatch(r'(?:move |copy )(_\d+)', rhs)
            if m:
                r = self.project_local(int(m.group(1)[1:]), idx, depth, guard + 1)
                if r is None:
                    return None
                alts.add(r)
                continue
            m = re.fullmatch(r'(?:move |copy )\(\((_\d+) as (\w+)\)\.0: .*\)', rhs)
            if m and m.group(2) in _OKV | _ERRV:
                want = 'ok' if m.group(2) in _OKV else 'err'
                vds = self.variant_defs(self.source_local(int(m.group(1)[1:])))
                if not vds or any(c is None for c, _, _ in vds):
                    return None
                got = False
                for c, b, pay in vds:
                    if c != want or pay is None:
                        continue
                    pm = re.fullmatch(r'(?:move |copy )?(_\d+)', pay.strip())
                    if not pm:
                        return None
                    r = self.project_local(int(pm.group(1)[1:]), idx, depth, guard + 1)
                    if r is None:
                        return None
                    alts.add(r)
                    got = True
                if not got:
                    return None
                continue
            return None
        return sorted(alts)[0] if len(alts) == 1 else '{' + ' | '.join(sorted(alts)) + '}'

    def local(self, loc, depth=0):
        """Description of a local by how it is computed.  No depth cut-off (a cut-off is not invariant under moving code into a
        helper): long descriptions are abbreviated to a prefix plus a digest of the full text; a local that is (transitively)
        defined in terms of itself (loop-carried) is cut at the point of re-entry with `…`."""
        if loc in self.du.params:
            k = (self.body.name or '').count('{closure')
            return ('arg%d' % loc) if k == 0 else ('c%d.arg%d' % (k, loc))
        if loc in self._memo:
            return self._memo[loc]
        if loc in self._busy or depth > 150:
            self._cyc = True
            return '…'
        ds = self.du.defs.get(loc, [])
        if not ds:
            return '_'
        outer_cyc, self._cyc = self._cyc, False
        self._busy.add(loc)
        try:
            if len(ds) == 1:
                desc = self.def_desc(ds[0], depth)
            else:
                parts = set()
                for d in ds:
                    dd = self.def_desc(d, depth + 1)
                    if d[0] == 'assign' and d[2].rhs.strip().startswith('const '):
                        ctl = sorted(filter(None, (self.branch_atom(a, s_) for a, s_ in self.cd_edges(d[1]))))
                        dd = '[%s] %s' % (' & '.join(ctl), dd) if ctl else dd
                    parts.add(dd)
                desc = '{' + ' | '.join(sorted(parts)) + '}'
        finally:
            self._busy.discard(loc)
        if len(desc) > 360:
            dg = hashlib.sha1(desc.encode()).hexdigest()[:12]
            try:
                from . import facts as _facts
                _facts.ABBR[dg] = _facts.leaves(desc)       # what the abbreviation stands for (nested abbreviations expanded)
                _facts.ABBR_DEC[dg] = frozenset(_facts.decisions(desc))   # and the decisions made inside it
                if _facts.ABBR_TEXT is not None:
                    _facts.ABBR_TEXT[dg] = desc
            except Exception:
                pass
            desc = desc[:80] + '…#' + dg
        if not self._cyc:
            self._memo[loc] = desc
        self._cyc = self._cyc or outer_cyc
        return desc

    @staticmethod
    def named(text, extra):
        """Replace `const _` operands by the named constant recorded in the statement's MIR comments."""
        if text is None or 'const _' not in text:
            return text
        names = re.findall(r'Unevaluated\(([A-Za-z_][\w:]*)', ' '.join(extra or []))
        if not names:
            return text
        it = iter(names)
        return re.sub(r'const _(?![\w])', lambda m: 'const %s' % next(it, '_'), text)

    def def_desc(self, d, depth):
        kind, bid, obj = d
        if kind == 'call':
            k = mir.callee_key(obj.callee)
            short = k.rsplit('::', 1)[-1]
            if short in ('deref', 'deref_mut', 'as_ref', 'clone', 'into', 'to_owned', 'borrow', 'as_slice', 'unpack', 'from') and obj.args:
                return self.val(obj.args[0], depth + 1)
            if short == 'branch' and 'Try' in k and obj.args:
                return self.val(obj.args[0], depth + 1)
            if k in _PASS_CALLS and obj.args:
                return self.val(obj.args[0], depth + 1)
            if short == 'into_iter' and obj.args:
                return self.val(obj.args[0], depth + 1)
            if k in ('Option::is_none', 'Option::is_some', 'Result::is_ok', 'Result::is_err') and obj.args:
                return '(%s is %s)' % (self.val(obj.args[0], depth + 1), {'is_none': 'None', 'is_some': 'Some', 'is_ok': 'Ok', 'is_err': 'Err'}[short])
            return self.call_desc(obj, depth)
        return self.rvalue(self.named(obj.rhs, obj.extra), depth + 1)

    def rvalue(self, rhs, depth=0):
        rhs = rhs.strip()
        if rhs.startswith('const '):
            return rhs[6:]
        m = re.match(r'^(\w+)\((.*)\)$', rhs)
        if m and m.group(1) in ('CheckedAdd', 'CheckedSub', 'CheckedMul', 'Add', 'Sub', 'Mul', 'Div', 'Rem', 'BitAnd', 'BitOr', 'BitXor', 'Shl', 'Shr'):
            parts = mir.split_top(m.group(2))
            return '%s(%s)' % (m.group(1).replace('Checked', ''), ', '.join(self.val(p, depth + 1) for p in parts))
        if m and m.group(1) in _SYM:
            a, b = mir.split_top(m.group(2))
            return _rel(m.group(1), self.val(a, depth + 1), self.val(b, depth + 1))
        if m and m.group(1) in ('Not', 'Neg'):
            return '%s(%s)' % (m.group(1), self.val(m.group(2), depth + 1))
        if m and m.group(1) == 'Len':
            return '%s.len()' % self.place(m.group(2), depth + 1)
        if m and m.group(1) == 'discriminant':
            return 'discriminant(%s)' % self.place(m.group(2), depth + 1)
        m = re.match(r"^&(?:'\w+ )?(?:mut )?(.*)$", rhs)
        if m:
            return self.place(m.group(1), depth)
        if rhs.startswith(('move ', 'copy ')):
            body = rhs.split(' ', 1)[1]
            cm = re.match(r'^(.*) as ([^()]+) \(.*\)$', body)
            if cm:
                return self.place(cm.group(1), depth)
            return self.place(body, depth)
        if rhs.startswith('deref_copy '):
            return self.place(rhs[11:], depth)
        cm = re.match(r'^(.*) as ([^()]+) \(.*\)$', rhs)
        if cm:
            return self.val(cm.group(1), depth)
        if rhs == '()':
            return '()'
        if rhs.startswith('(') and rhs[1:].startswith(('move ', 'copy ', 'const ')):
            parts = mir.split_top(rhs[1:-1])
            return '(' + ', '.join(self.val(p, depth + 1) for p in parts) + ')'
        if rhs.startswith('['):
            if rhs.startswith('[closure@'):
                return self.closure_desc(rhs)
            parts = mir.split_top(rhs[1:-1])
            return '[' + ', '.join(self.val(p, depth + 1) for p in parts) + ']'
        sg = strip_generics(rhs) if re.match(r'^[A-Za-z]', rhs) else ''
        am = re.match(r'^((?:[\w]+::)+)(\w+)(?:\((.*)\)| \{(.*)\})?$', sg) or re.match(r'^()([A-Z]\w*)(?:\((.*)\)| \{(.*)\})$', sg)
        if am:
            head = am.group(2)
            segs = [x for x in am.group(1).split('::') if x]
            ty = segs[-1] if segs else ''
            if am.group(3) is not None:
                return '%s(%s)' % (head, ', '.join(self.val(p, depth + 1) for p in mir.split_top(am.group(3))))
            if am.group(4) is not None:
                fs = []
                for f in mir.split_top(am.group(4)):
                    if ': ' in f:
                        n, v = f.split(': ', 1)
                        fs.append('%s: %s' % (n.strip(), self.val(v, depth + 1)))
                return '%s{%s}' % (head, ', '.join(fs))
            return '%s::%s' % (ty, head) if ty and ty != head else head
        if re.match(r'^[_(]', rhs):
            return self.place(rhs, depth)
        return '_'

    def capture_env(self, rhs):
        """name -> description (in THIS body) of each variable the closure aggregate captures."""
        env = {}
        m = re.match(r'^\[closure@[^\]]+\] \{(.*)\}$', rhs.strip())
        if not m:
            return env
        for f in mir.split_top(m.group(1)):
            if ': ' in f:
                n, v = f.split(': ', 1)
                env[n.strip()] = self.val(v.strip(), 1)
        return env

    def closure_desc(self, rhs):
        m = re.match(r'^\[closure@([^\]]+)\]', rhs)
        if not m:
            return 'closure'
        span = m.group(1).strip()
        idx = getattr(self.prog, '_closure_by_span', None)
        if idx is None:
            idx = {}
            for c in self.prog.bodies:
                if '{closure' in (c.name or '') and c.params:
                    mm = re.search(r'\[closure@([^\]]+)\]', c.params[0][1])
                    if mm:
                        idx[mm.group(1).strip()] = c
            self.prog._closure_by_span = idx
        tgt = idx.get(span)
        if tgt is None or tgt.name == self.body.name or tgt.name in _CLOSURE_STACK:
            return 'closure'
        _CLOSURE_STACK.append(tgt.name)
        try:
            ex = Exits(self.prog, tgt, cap_env=self.capture_env(rhs)).census()
        finally:
            _CLOSURE_STACK.pop()
        # a predicate written as a two-armed match (`matches!(x, P)`) is the same value as the test itself
        if len(ex) == 2 and {e['label'] for e in ex} == {'true', 'false'} and all(len(e['atoms']) == 1 for e in ex):
            t = [e for e in ex if e['label'] == 'true'][0]
            return 'fn{(%s)}' % t['atoms'][0]
        parts = []
        for e in ex:
            cond = ' & '.join(e['atoms'])
            parts.append(('[%s] ' % cond if cond else '') + e['label'])
        return 'fn{' + ' ; '.join(sorted(parts)) + '}'

    # ---- branch atoms -----------------------------------------------------------------------
    def branch_atom(self, bid, succ):
        """Relation that holds when block `bid` branches to `succ`."""
        t = self.body.blocks[bid].term
        if t.kind != 'switchInt':
            if t.kind == 'call':
                return None
            return '%s@%s' % (t.kind, succ)
        vals = [v for v, tgt in t.cases if tgt == succ and v != 'otherwise']
        other = [v for v, tgt in t.cases if tgt != succ and v != 'otherwise']
        is_otherwise = any(v == 'otherwise' and tgt == succ for v, tgt in t.cases)
        return self.discr_atom(t.discr, vals, other, is_otherwise, 0)

    def discr_atom(self, discr, vals, other, is_otherwise, depth, blk_hint=None):
        pl = discr.strip()
        pl = pl.split(' ', 1)[1] if pl.startswith(('move ', 'copy ')) else pl
        m = re.fullmatch(r'_(\d+)', pl)
        truth = None
        if set(vals) | set(other) <= {0, 1} or (not vals and set(other) <= {0, 1}):
            # boolean-like
            if vals == [0]:
                truth = False
            elif vals == [1] or (is_otherwise and other == [0]):
                truth = True
            elif is_otherwise and other == [1]:
                truth = False
        if m:
            loc = int(m.group(1))
            d = self.single_def(loc)
            if d is not None:
                kind, bid, obj = d
                if kind == 'assign':
                    rhs = self.named(obj.rhs, obj.extra).strip()
                    mm = re.match(r'^(\w+)\((.*)\)$', rhs)
                    if mm and mm.group(1) in _SYM and truth is not None:
                        a, b = mir.split_top(mm.group(2))
                        op = mm.group(1) if truth else _NEG[mm.group(1)]
                        return _rel(op, self.val(a), self.val(b))
                    if mm and mm.group(1) == 'Not' and truth is not None and depth < 6:
                        return self.discr_atom(mm.group(2), [0] if truth else [1], [1] if truth else [0], False, depth + 1)
                    if mm and mm.group(1) == 'discriminant':
                        who = self.place(mm.group(2))
                        ty = self.body.locals.get(int(re.search(r'_(\d+)', mm.group(2)).group(1)), '') if re.search(r'_(\d+)', mm.group(2)) else ''
                        return '%s is %s' % (who, self.variant_names(ty, vals, other, is_otherwise))
                    if re.fullmatch(r'(move |copy )?_\d+', rhs) and depth < 6:
                        return self.discr_atom(rhs, vals, other, is_otherwise, depth + 1)
                elif kind == 'call' and truth is not None:
                    k = mir.callee_key(obj.callee)
                    mt = re.match(r'^<.* as Partial(?:Eq|Ord)(?:<.*>)?>::(eq|ne|lt|le|gt|ge)$', k)
                    if mt and len(obj.args) == 2:
                        op = _TRAIT_CMP[mt.group(1)]
                        op = op if truth else _NEG[op]
                        return _rel(op, self.val(obj.args[0]), self.val(obj.args[1]))
                    # common predicate idioms are normalised so that `x.is_none()` / `matches!(x, None)` / `x == None`-style rewrites
                    # of the same test give the same atom
                    short = k.rsplit('::', 1)[-1]
                    if k in ('Option::is_none', 'Option::is_some', 'Result::is_ok', 'Result::is_err') and obj.args:
                        pos = {'is_none': 'None', 'is_some': 'Some', 'is_ok': 'Ok', 'is_err': 'Err'}[short]
                        neg = {'None': 'Some', 'Some': 'None', 'Ok': 'Err', 'Err': 'Ok'}[pos]
                        return '%s is %s' % (self.val(obj.args[0]), pos if truth else neg)
                    if short == 'is_empty' and len(obj.args) == 1:
                        return _rel('Eq' if truth else 'Ne', '0_usize', '%s::len(%s)' % (k.rsplit('::', 1)[0], self.val(obj.args[0])))
                    return '%s == %s' % (self.call_desc(obj), 'true' if truth else 'false')
        who = self.val(discr)
        if truth is not None:
            return '%s == %s' % (who, 'true' if truth else 'false')
        return '%s in %s' % (who, sorted(map(str, vals)) if vals else 'not ' + str(sorted(map(str, other))))

    def variant_names(self, ty, vals, other, is_otherwise):
        names = None
        t = ty.strip()
        if 'Option<' in t.split('(')[0] or t.startswith(('std::option::Option', 'Option<')):
            names = {0: 'None', 1: 'Some'}
        elif t.startswith(('std::result::Result', 'Result<')):
            names = {0: 'Ok', 1: 'Err'}
        elif 'ControlFlow<' in t:
            names = {0: 'Continue', 1: 'Break'}

        def nm(v):
            return names.get(v, str(v)) if names else str(v)
        if vals:
            return '|'.join(nm(v) for v in sorted(vals))
        if names and len(names) == 2 and len(other) == 1:
            rest = [v for v in names if v not in other]
            return nm(rest[0])
        return 'not ' + '|'.join(nm(v) for v in sorted(other))

    # ---- success / failure values through inlined helpers ("jump threading" at description level) -----
    def source_local(self, loc):
        """Follow value-preserving single definitions (moves, references, Try::branch, map_err / ok_or(_else)) back to the local
        where the value is constructed or where several definitions meet."""
        for _ in range(40):
            ds = self.du.defs.get(loc, [])
            if len(ds) != 1:
                return loc
            kind, bid, obj = ds[0]
            if kind == 'assign':
                m = re.fullmatch(r"(?:move |copy |&(?:mut )?)\(?\*?(_\d+)\)?", obj.rhs.strip())
                if not m:
                    return loc
                loc = int(m.group(1)[1:])
                continue
            k = mir.callee_key(obj.callee)
            if (k in _PASS_CALLS or (k.endswith('::branch') and 'Try' in k)) and obj.args:
                m = re.fullmatch(r"(?:move |copy )?(_\d+)", obj.args[0].strip())
                if not m:
                    return loc
                loc = int(m.group(1)[1:])
                continue
            return loc
        return loc

    def variant_defs(self, loc, seen=None):
        """[(cls, bid, payload operand | None)] for every definition of loc, cls in 'ok' / 'err' / None (unknown)."""
        seen = seen if seen is not None else set()
        if loc in seen:
            return [(None, None, None)]
        seen.add(loc)
        out = []
        ds = self.du.defs.get(loc, [])
        if not ds:
            return [(None, None, None)]
        for kind, bid, obj in ds:
            if kind == 'assign':
                rhs = strip_generics(obj.rhs.strip())
                m = re.match(r'^(?:\w+::)*(Ok|Err|Some)\((.*)\)$', rhs)
                if m:
                    out.append(('ok' if m.group(1) in _OKV else 'err', bid, m.group(2)))
                    continue
                if re.match(r'^(?:\w+::)*None$', rhs):
                    out.append(('err', bid, None))
                    continue
                m = re.fullmatch(r"(?:move |copy )\(?\*?(_\d+)\)?", obj.rhs.strip())
                if m:
                    out += self.variant_defs(self.source_local(int(m.group(1)[1:])), seen)
                    continue
                out.append((None, bid, None))
            else:
                k = mir.callee_key(obj.callee)
                if k.endswith('::from_residual'):
                    out.append(('err', bid, None))
                elif (k in _PASS_CALLS or (k.endswith('::branch') and 'Try' in k)) and obj.args and re.fullmatch(r"(?:move |copy )?(_\d+)", obj.args[0].strip()):
                    out += self.variant_defs(self.source_local(int(re.search(r'_(\d+)', obj.args[0]).group(1))), seen)
                else:
                    out.append((None, bid, None))
        return out

    def variant_payload(self, loc, want, depth):
        vds = self.variant_defs(self.source_local(loc))
        if not vds or any(c is None for c, _, _ in vds):
            return None
        pays = sorted({self.val(p, depth + 1) for c, b, p in vds if c == want and p is not None})
        if not pays:
            return None
        return pays[0] if len(pays) == 1 else '{' + ' | '.join(pays) + '}'

    def edge_expansion(self, a, s):
        """If the branch a -> s tests success / failure of a value all of whose definitions are visibly a success or a failure
        (typically the return value of an inlined helper), the blocks of the compatible definitions; else None."""
        t = self.body.blocks[a].term
        if t.kind != 'switchInt':
            return None
        m = re.fullmatch(r'(?:move |copy )?(_\d+)', t.discr.strip())
        if not m:
            return None
        d = self.single_def(int(m.group(1)[1:]))
        if d is None or d[0] != 'assign':
            return None
        mm = re.match(r'^discriminant\((.*)\)$', d[2].rhs.strip())
        if not mm:
            return None
        ym = re.search(r'_(\d+)', mm.group(1))
        if not ym:
            return None
        y = int(ym.group(1))
        ty = self.body.locals.get(y, '') or ''
        vals = [v for v, tgt in t.cases if tgt == s and v != 'otherwise']
        other = [v for v, tgt in t.cases if tgt != s and v != 'otherwise']
        is_otherwise = any(v == 'otherwise' and tgt == s for v, tgt in t.cases)
        name = self.variant_names(ty, vals, other, is_otherwise)
        want = 'ok' if name in _OKV else 'err' if name in _ERRV else None
        if want is None:
            return None
        vds = self.variant_defs(self.source_local(y))
        if not vds or any(c is None for c, _, _ in vds):
            return None
        return [(b, p) for c, b, p in vds if c == want]

    def closure_edges(self, x):
        """Transitive control-dependence edges of block x, with success/failure tests of fully visible values replaced by the
        control dependences of the compatible definitions."""
        edges = []
        seen = set()
        stack = [x]
        while stack:
            b = stack.pop()
            if b in seen:
                continue
            seen.add(b)
            for (a, s) in self.cd_edges(b):
                ex = self.edge_expansion(a, s)
                if ex is None:
                    if (a, s) not in edges:
                        edges.append((a, s))
                else:
                    for db, _ in ex:
                        stack.append(db)
                stack.append(a)
        return edges

    def immediate_edges(self, x, depth=0):
        out = []
        for (a, s) in self.cd_edges(x):
            ex = self.edge_expansion(a, s)
            if ex is None or depth > 6:
                out.append((a, s))
            else:
                for db, _ in ex:
                    out += self.immediate_edges(db, depth + 1)
        return out

    # ---- control dependence -------------------------------------------------------------------
    def cd_edges(self, x):
        """Immediate control dependences of block x as (branch block, successor) edges."""
        if x in self._cd:
            return self._cd[x]
        out = []
        cfg = self.cfg
        for a, ss in cfg.succ.items():
            if len(ss) < 2:
                continue
            if a != x and cfg.postdominates(x, a):
                continue
            for s in ss:
                if s == x or cfg.postdominates(x, s):
                    out.append((a, s))
        self._cd[x] = out
        return out

    def all_cd_edges(self, x):
        seen_b = set()
        edges = []
        stack = [x]
        while stack:
            b = stack.pop()
            if b in seen_b:
                continue
            seen_b.add(b)
            for (a, s) in self.cd_edges(b):
                if (a, s) not in edges:
                    edges.append((a, s))
                stack.append(a)
        return edges

    # ---- exits -------------------------------------------------------------------------------
    def param_root(self, loc, guard=0):
        """The parameter a reference-valued local is (a reborrow / copy of), or None."""
        for _ in range(30):
            if loc in self.du.params:
                return loc
            ds = self.du.defs.get(loc, [])
            if len(ds) != 1 or ds[0][0] != 'assign':
                return None
            m = re.fullmatch(r"(?:move |copy |deref_copy |&(?:mut )?)\(?\*?(_\d+)\)?", ds[0][2].rhs.strip())
            if not m:
                return None
            loc = int(m.group(1)[1:])
        return None

    def raw_exits(self):
        out = []
        for bid, blk in sorted(self.body.blocks.items()):
            if blk.cleanup:
                continue
            for i, s in enumerate(blk.stmts):
                if s.kind == 'assign' and s.lhs.strip() == '_0':
                    out.append((bid, s.span, self.rvalue(self.named(s.rhs, s.extra)), s.rhs.strip()))
                elif self.effects and s.kind == 'assign':
                    m = re.match(r'^\(+\*(_\d+)\)', s.lhs.strip())
                    if m:
                        out.append((bid, s.span, 'write %s := %s' % (self.place(s.lhs), self.rvalue(self.named(s.rhs, s.extra))), 'effect'))
            t = blk.term
            if self.sinks is not None and t.kind == 'call' and self.sinks.search(mir.callee_key(t.callee)):
                out.append((bid, t.span, 'call %s' % self.call_desc(t), 'effect'))
            if t.kind == 'call' and t.dest and t.dest.strip() == '_0':
                out.append((bid, t.span, self.def_desc(('call', bid, t), 0) if 'from_residual' not in t.callee else self.call_desc(t), t.callee))
            elif self.effects and t.kind == 'call' and t.args:
                for a in t.args:
                    m = re.fullmatch(r'(?:move |copy )?(_\d+)', a.strip())
                    if not m:
                        continue
                    d = self.single_def(int(m.group(1)[1:]))
                    if d and d[0] == 'assign':
                        mm = re.match(r"^&mut \(+\*(_\d+)\)", d[2].rhs.strip())
                        if mm and self.param_root(int(mm.group(1)[1:])) is not None:
                            out.append((bid, t.span, 'mutate %s' % self.call_desc(t), 'effect'))
                            break
                        # accumulation into a local container: what is added, and (through the control dependence) when
                        if re.match(r'^&mut _\d+$', d[2].rhs.strip()) and a is t.args[0] and _MUTATORS.search(mir.callee_key(t.callee)):
                            out.append((bid, t.span, 'mutate %s' % self.call_desc(t), 'effect'))
                            break
        return out

    @staticmethod
    def classify(label, raw, ret_ty):
        if 'from_residual' in raw or label.startswith('Err('):
            return 'reject'
        if label.startswith('Ok(') or label in ('Status::ok()',):
            return 'accept'
        if re.match(r'^(StatusCode::with_context|StatusCode::into|Status::from|Status::new)\(StatusCode::(\w+)', label) or re.fullmatch(r'StatusCode::\w+', label):
            v = re.search(r'StatusCode::([A-Z][A-Za-z0-9]+)', label)
            return 'accept' if v and v.group(1) == 'OK' else 'reject'
        if label in ('None', 'Option::None') and ret_ty.strip().startswith(('Option<', 'std::option::Option<')):
            return 'reject'
        if label.startswith('Some(') and ret_ty.strip().startswith(('Option<', 'std::option::Option<')):
            return 'accept'
        return 'exact'

    def norm_label(self, label, cls):
        mm = re.search(r'StatusCode::([A-Z][A-Za-z0-9]+)', label)
        if mm and cls in ('reject', 'accept') and not label.startswith(('Ok(', 'Some(')):
            return ('Err(Status::%s)' if label.startswith('Err(') else 'Status::%s') % mm.group(1)
        m = re.match(r'^Result::from_residual\((.*)\)$', label)
        if m:
            inner = m.group(1)
            inner = inner[:-2] if inner.endswith('.0') else inner
            return 'fail(%s)' % inner
        return label

    def flatten(self, bid, span, label, raw, depth=0, force=None):
        """An exit that propagates the failure of a fully visible value (`helper(..)?` with the helper inlined) is replaced by
        one exit per failing definition of that value."""
        cls = force or self.classify(label, raw, self.body.ret)
        if cls == 'reject' and depth < 6:
            imm = self.cd_edges(bid)
            exp = [(a, s, self.edge_expansion(a, s)) for (a, s) in imm]
            if len(imm) == 1 and exp[0][2] is not None and exp[0][2]:
                out = []
                for db, pay in exp[0][2]:
                    blk = self.body.blocks[db]
                    t = blk.term
                    if t.kind == 'call' and 'from_residual' in (t.callee or ''):
                        lab, rw = self.call_desc(t), t.callee
                    else:
                        lab, rw = None, ''
                        for st in blk.stmts:
                            if st.kind == 'assign' and re.search(r'::Err\(|::None\b', strip_generics(st.rhs)):
                                lab, rw = self.rvalue(st.rhs), st.rhs
                        if lab is None:
                            lab, rw = label, raw
                    out += self.flatten(db, span, lab, rw, depth + 1, force='reject')
                return out
        lab = self.norm_label(label, cls)
        if force and not lab.startswith(('fail(', 'Err(')):
            lab = 'fail(%s)' % lab
        return [{'bid': bid, 'span': span, 'label': lab, 'cls': cls}]

    def closure_effects(self, depth=0):
        """Effect entries (sink calls / writes through captured &mut) of the closures constructed in this body, so that the
        work done inside `for_each(|..| ..)` is part of the enclosing function's census."""
        out = []
        if (self.sinks is None and not self.effects and not self.closures) or depth > 3:
            return out
        idx = getattr(self.prog, '_closure_by_span', None)
        if idx is None:
            self.closure_desc('[closure@?]')
            idx = getattr(self.prog, '_closure_by_span', {})
        for bid, blk in sorted(self.body.blocks.items()):
            if blk.cleanup:
                continue
            for st in blk.stmts:
                if st.kind != 'assign' or not st.rhs.strip().startswith('[closure@'):
                    continue
                m = re.match(r'^\[closure@([^\]]+)\]', st.rhs.strip())
                c = idx.get(m.group(1).strip()) if m else None
                if c is None or c.name == self.body.name:
                    continue
                from .census import inlined as _inl
                sub = Exits(self.prog, _inl(self.prog, c, sinks=self.sinks.pattern if self.sinks else None), effects=self.effects, sinks=self.sinks.pattern if self.sinks else None,
                            cap_env=self.capture_env(st.rhs), closures=self.closures, guarded=self.guarded)
                outer = sorted(filter(None, {self.branch_atom(a, s) for (a, s) in self.closure_edges(bid)}))
                subex = sub.census(depth + 1)
                own = [e for e in subex if not e['label'].startswith('in closure: ') and not e.get('effect')]
                # a predicate written as a two-armed match is the same value as the test itself (cf. closure_desc)
                if len(own) == 2 and {e['label'] for e in own} == {'true', 'false'} and all(len(e['atoms']) == 1 for e in own):
                    t = [e for e in own if e['label'] == 'true'][0]
                    merged = dict(t)
                    merged.update({'label': '(%s)' % t['atoms'][0], 'cls': 'exact', 'trigger': [], 'atoms': [], 'full': []})
                    subex = [e for e in subex if e not in own] + [merged]
                for e in subex:
                    if e.get('effect') or self.closures:
                        e2 = dict(e)
                        e2['label'] = 'in closure: ' + e['label'] if not e['label'].startswith('in closure: ') else e['label']
                        if e.get('effect'):
                            # what a closure DOES also depends on the conditions under which the enclosing code runs it
                            e2['full'] = sorted(set(e['full']) | set(outer))
                            e2['atoms'] = sorted(set(e['atoms']) | set(outer))
                        e2['span'] = e['span']
                        out.append(e2)
        return out

    def census(self, depth=0):
        exits = []
        for bid, span, label, raw in self.raw_exits():
            if raw == 'effect':
                exits.append({'bid': bid, 'span': span, 'label': label, 'cls': 'sink' if (self.guarded and label.startswith('call ')) else 'exact', 'effect': True})
            else:
                exits += self.flatten(bid, span, label, raw)
        for e in exits:
            e['edges'] = self.closure_edges(e['bid'])
            e['imm'] = self.immediate_edges(e['bid'])
        # a moved Status that is returned on its own is_ok() == false edge is a rejection
        for e in exits:
            if e['cls'] == 'exact':
                ats = [self.branch_atom(a, s) for a, s in e['edges']]
                if any(x and x.startswith('Status::is_ok(') and x.endswith('== false') and e['label'] in x for x in ats):
                    e['cls'] = 'reject'
        exit_blocks = {}
        for e in exits:
            exit_blocks.setdefault(e['bid'], []).append(e)
        rej_only = {}

        def only_rejects_from(start):
            if start in rej_only:
                return rej_only[start]
            reach = self.cfg.reachable_from([start])
            found = [x for b in reach for x in exit_blocks.get(b, [])]
            ok = bool(found) and all(x['cls'] == 'reject' for x in found)
            rej_only[start] = ok
            return ok
        for e in exits:
            e['trigger'] = sorted(filter(None, {self.branch_atom(a, s) for (a, s) in e['imm']}))
            e['full'] = sorted(filter(None, {self.branch_atom(a, s) for (a, s) in e['edges']}))
            atoms = set()
            for (a, s) in e['edges']:
                if e['cls'] != 'accept':
                    others = [o for o in self.cfg.succ[a] if o != s]
                    if others and all(only_rejects_from(o) for o in others) and e['bid'] not in set().union(*[self.cfg.reachable_from([o]) for o in others]):
                        continue
                at = self.branch_atom(a, s)
                if at:
                    atoms.add(at)
            e['atoms'] = sorted(atoms)
        for e in self.closure_effects(depth):
            exits.append(e)
        return exits


def compare(reviewed, actual):
    """reviewed / actual: lists of {'label', 'cls', 'atoms'}.  Returns list of (kind, entry, detail) problems."""
    problems = []
    for r in reviewed:
        ra = set(r['atoms'])
        if r['cls'] == 'reject':
            cands = [a for a in actual if a['label'] == r['label'] and a['cls'] == 'reject']
            if not any(set(a['atoms']) <= ra for a in cands):
                near = [sorted(set(a['atoms']) - ra) for a in cands]
                problems.append(('rejection removed or narrowed', r, {'extra_conditions_on_candidates': near[:3]}))
        elif r['cls'] == 'exact':
            if not any(a['label'] == r['label'] and set(a['atoms']) == ra for a in actual):
                problems.append(('returned value or its condition changed', r, {'have': [a['atoms'] for a in actual if a['label'] == r['label']][:3]}))
    racc = [r for r in reviewed if r['cls'] == 'accept']
    for a in actual:
        if a['cls'] == 'accept':
            if not any(r['label'] == a['label'] and set(r['atoms']) <= set(a['atoms']) for r in racc):
                best = None
                for r in racc:
                    if r['label'] == a['label']:
                        miss = sorted(set(r['atoms']) - set(a['atoms']))
                        if best is None or len(miss) < len(best):
                            best = miss
                problems.append(('success is reachable without a reviewed condition', a, {'missing_conditions': best}))
        elif a['cls'] == 'exact':
            if not any(r['cls'] == 'exact' and r['label'] == a['label'] and set(r['atoms']) == set(a['atoms']) for r in reviewed):
                problems.append(('unreviewed return value', a, {}))
    return problems
