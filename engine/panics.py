"""P8 — abort-capable site census over the bodies reachable from the protocol handlers.

A site is one of
  assert   : MIR Assert terminators (checked + - * overflow, index bounds, division by zero)
  panic    : calls to the explicit panic entry points (panic!, unreachable!, assert!, assert_eq!)
  unwrap   : Option/Result expect/unwrap (and friends)
  libcall  : calls in the may-panic library table (slice/Vec indexing, copy_from_slice, U256
             arithmetic, VerifiableHeader::total_difficulty, MMR index helpers, unchecked readers, ...)

Each site gets a *line-free descriptor*: the operation plus its operands rendered through source
variable names (MIR debug info) and the calls that produced them, e.g.
  `CheckedSub(headers.len(), last_n_count)`  /  `Index(headers, reorg_count)`  /  `expect(Storage::get(..))`.
"""
import os
import re
from .cfg import locals_in
from .defuse import DefUse
from .variants import _single_def
from . import mir

PANIC_FNS = re.compile(r'(^|::)(panic_fmt|begin_panic|panic|panic_display|panic_str|assert_failed|assert_failed_inner|unreachable_display|panic_nounwind|panic_explicit|panic_bounds_check|expect_failed|unwrap_failed)$')
UNWRAP_FNS = re.compile(r'^(Option|Result)::(expect|unwrap|unwrap_err|expect_err|unwrap_unchecked)$')

# may-panic library table: (regex on callee key, kind label, precondition)
LIBTABLE = [
    (re.compile(r' as (Index|IndexMut)>::index(_mut)?$'), 'Index', 'index / range within bounds'),
    (re.compile(r'slice::copy_from_slice$|slice::clone_from_slice$'), 'copy_from_slice', 'equal lengths'),
    (re.compile(r'^Vec::(remove|swap_remove|insert|split_off|drain)$'), 'VecOp', 'index / range within bounds'),
    (re.compile(r'slice::(split_at|split_at_mut|chunks|chunks_exact|windows|rotate_left|rotate_right|swap)$'), 'SliceOp', 'size > 0 / mid <= len'),
    (re.compile(r'^<&?U(256|512|128) as (Add|Sub|Mul|Div|Rem|Shl|Shr|AddAssign|SubAssign|MulAssign)(<.*>)?>::\w+$'), 'U256op', 'no overflow / non-zero divisor (numext panics)'),
    (re.compile(r'VerifiableHeader::total_difficulty$'), 'total_difficulty', 'parent total difficulty + block difficulty < 2^256 (unchecked U256 add in ckb-types)'),
    (re.compile(r'(^|::)leaf_index_to_mmr_size$|(^|::)leaf_index_to_pos$'), 'mmr_index', 'index < 2^63 (unchecked u64 arithmetic in ckb-merkle-mountain-range)'),
    (re.compile(r'Reader::new_unchecked$|::new_unchecked$'), 'new_unchecked', 'bytes verified for this exact schema type'),
    (re.compile(r'(^|::)Block::extension$|BlockReader::extension$|BlockView::extension$'), 'extension', 'first extra field is a valid Bytes'),
    (re.compile(r'GCSFilterReader::match_any$|GCSFilterReader::match_all$'), 'gcs', 'well-formed filter bytes'),
    (re.compile(r'^<(Instant|Duration|SystemTime) as (Sub|Add)(<.*>)?>::\w+$|Duration::from_secs_f64$'), 'time_arith', 'no overflow'),
    (re.compile(r'(^|::)from_slice_should_be_ok$'), 'from_slice_should_be_ok', 'well-formed molecule bytes'),
    (re.compile(r'Iterator>::(sum|product)$'), 'iter_sum', 'no overflow'),
    (re.compile(r'str::(split_at)$|String::(remove|insert|truncate|split_off|drain)$'), 'StrOp', 'char boundary / bounds'),
    (re.compile(r'Entity>::as_builder$'), None, None),
]


def assert_kind(msg):
    if 'attempt to compute' in msg or 'which would overflow' in msg:
        m = re.search(r'`\{\} (.) \{\}`', msg)
        return 'overflow(%s)' % (m.group(1) if m else '?')
    if 'attempt to negate' in msg:
        return 'overflow(neg)'
    if 'attempt to shift' in msg:
        return 'overflow(shift)'
    if 'index out of bounds' in msg:
        return 'bounds'
    if 'attempt to divide' in msg:
        return 'div0'
    if 'remainder' in msg:
        return 'rem0'
    if 'misaligned pointer' in msg:
        return None
    if 'resumed after' in msg:
        return None   # generator state machine
    return 'assert(%s)' % msg[:30]


class Describer:
    """Render operands through debug names / producing calls."""

    def __init__(self, body):
        self.body = body
        self.du = DefUse(body)
        self.names = {}
        for name, place in body.debug_all:
            m = re.fullmatch(r'_(\d+)', place.strip())
            if m:
                self.names.setdefault(int(m.group(1)), name)
        self.call_defs = {}
        for bid, blk in body.blocks.items():
            t = blk.term
            if t.kind == 'call' and t.dest:
                m = re.fullmatch(r'_(\d+)', t.dest.strip())
                if m:
                    self.call_defs.setdefault(int(m.group(1)), []).append(t)

    def local(self, loc, depth=0):
        if loc in self.names:
            return self.names[loc]
        if depth > 5:
            return '_'
        ts = self.call_defs.get(loc)
        if ts and len(ts) == 1:
            t = ts[0]
            k = mir.callee_key(t.callee)
            k = re.sub(r'^<(\w+) as \w+>::', r'\1::', k)
            if k.endswith('::len') or k.endswith('::deref') or k.endswith('::deref_mut') or k.endswith('::as_ref') or k.endswith('::clone') \
                    or k.endswith('::unpack') or k.endswith('::into') or k.endswith('::to_owned') or k.endswith('::as_slice'):
                arg = self.operand(t.args[0], depth + 1) if t.args else ''
                short = k.rsplit('::', 1)[-1]
                if short in ('deref', 'deref_mut', 'as_ref', 'clone', 'into', 'to_owned'):
                    return arg
                return '%s.%s()' % (arg, short)
            return '%s(..)' % k
        d = _single_def(self.body, loc)
        if d is not None:
            return self.rvalue(d, depth + 1)
        return '_'

    def rvalue(self, rhs, depth=0):
        rhs = rhs.strip()
        if rhs.startswith('const '):
            return rhs[6:]
        m = re.match(r'^(\w+)\((.*)\)$', rhs)
        if m and m.group(1) in ('CheckedAdd', 'CheckedSub', 'CheckedMul', 'Add', 'Sub', 'Mul', 'Div', 'Rem', 'Len', 'Not', 'Lt', 'Le', 'Gt', 'Ge', 'Eq', 'Ne', 'BitAnd', 'BitOr', 'Shl', 'Shr', 'Neg'):
            parts = mir.split_top(m.group(2))
            if m.group(1) == 'Len':
                return '%s.len()' % self.operand(parts[0], depth + 1)
            return '%s(%s)' % (m.group(1).replace('Checked', ''), ', '.join(self.operand(p, depth + 1) for p in parts))
        m = re.match(r"^&(?:'\w+ )?(?:mut )?(.*)$", rhs)
        if m:
            return self.place(m.group(1), depth)
        if rhs.startswith(('move ', 'copy ')):
            body = rhs.split(' ', 1)[1]
            cm = re.match(r'^(.*) as ([^()]+) \(.*\)$', body)
            if cm:
                return self.place(cm.group(1), depth)
            return self.place(body, depth)
        if rhs.startswith('deref_copy '):
            return self.place(rhs[11:], depth)
        cm = re.match(r'^(.*) as ([^()]+) \(.*\)$', rhs)
        if cm:
            return self.place(cm.group(1), depth)
        if re.match(r'^[_(]', rhs):
            return self.place(rhs, depth)
        am = re.match(r'^((?:\w+::)+\w+)', rhs)
        if am:
            return am.group(1).split('::')[-1] + '{..}'
        return '_'

    def place(self, pl, depth=0):
        pl = pl.strip()
        m = re.fullmatch(r'_(\d+)', pl)
        if m:
            return self.local(int(m.group(1)), depth)
        m = re.fullmatch(r'\(\*(.*)\)', pl)
        if m:
            return self.place(m.group(1), depth)
        m = re.match(r'^\((.*)\.(\d+): (.*)\)$', pl)
        if m:
            base = self.place(m.group(1), depth)
            # closure captures / struct fields: try debug names that are projections
            for name, place in self.body.debug_all:
                if place.strip() == pl:
                    return name
            fname = self._field_name(m.group(1).strip(), int(m.group(2)))
            return '%s.%s' % (base, fname if fname else m.group(2))
        m = re.match(r'^\((.*) as (\w+)\)$', pl)
        if m:
            return self.place(m.group(1), depth)
        m = re.match(r'^(.*)\[(.*)\]$', pl)
        if m:
            return '%s[%s]' % (self.place(m.group(1), depth), self.operand(m.group(2), depth))
        for name, place in self.body.debug_all:
            if place.strip() == pl:
                return name
        return '_'

    def _field_name(self, base_place, idx):
        """Field name instead of the field index for the crate's own structs (engine.structs), so that inserting a field does
        not rename every later field in the descriptors."""
        from . import structs
        repo = getattr(self.body, '_repo', None) or os.environ.get('VERIF_REPO') or '/repo'
        bp = base_place
        for _ in range(4):
            m = re.fullmatch(r'\(\*(.*)\)', bp)
            if not m:
                break
            bp = m.group(1).strip()
        ty = None
        m = re.fullmatch(r'_(\d+)', bp)
        if m:
            loc = int(m.group(1))
            ty = self.body.locals.get(loc)
            if ty is None:
                for pl_, pt in self.body.params:
                    if pl_ == loc:
                        ty = pt
        else:
            m = re.match(r'^\(.*\.\d+: (.*)\)$', bp)
            if m:
                ty = m.group(1)
        sn = structs.struct_of(ty) if ty else None
        fields = structs.index(repo).get(sn) if sn else None
        if fields and idx < len(fields):
            return fields[idx]
        return None

    def operand(self, op, depth=0):
        op = op.strip()
        if op.startswith('const '):
            return op[6:]
        if op.startswith(('move ', 'copy ')):
            op = op.split(' ', 1)[1]
        return self.place(op, depth)


class Site:
    __slots__ = ('body', 'bid', 'kind', 'sub', 'desc', 'span', 'term', 'operands', 'precond')

    def __init__(self, body, bid, kind, sub, desc, span, term, operands, precond=None):
        self.body, self.bid, self.kind, self.sub, self.desc = body, bid, kind, sub, desc
        self.span, self.term, self.operands, self.precond = span, term, operands, precond

    def key(self):
        return '%s|%s' % (self.body.name, self.desc)

    def __repr__(self):
        return 'Site(%s %s @%s)' % (self.kind, self.key(), self.span)


def census(prog, body):
    """All abort-capable sites of one body (normal-path blocks only)."""
    out = []
    D = Describer(body)
    for bid, blk in sorted(body.blocks.items()):
        if blk.cleanup:
            continue
        t = blk.term
        if t.kind == 'assert':
            k = assert_kind(t.msg)
            if k is None:
                continue
            ops = t.operands
            if k == 'bounds':
                # operands: len, index  ->  find the indexed place from the statement that uses it
                desc = 'bounds(%s)' % ', '.join(D.operand(o) for o in reversed(ops))
            else:
                desc = '%s(%s)' % (k, ', '.join(D.operand(o) for o in ops))
            out.append(Site(body, bid, 'assert', k, desc, t.span, t, ops))
        elif t.kind == 'call':
            key = mir.callee_key(t.callee)
            if PANIC_FNS.search(key):
                # message from promoted const is not in the text; describe by enclosing local span line-free: use the kind
                out.append(Site(body, bid, 'panic', key.split('::')[-1], 'panic:%s' % key.split('::')[-1], t.span, t, []))
                continue
            m = UNWRAP_FNS.match(key)
            if m:
                desc = '%s(%s)' % (m.group(2), D.operand(t.args[0]) if t.args else '')
                out.append(Site(body, bid, 'unwrap', m.group(1), desc, t.span, t, t.args[:1]))
                continue
            for rx, label, pre in LIBTABLE:
                if rx.search(key):
                    if label is None:
                        break
                    desc = '%s(%s)' % (label, ', '.join(D.operand(a) for a in t.args[:2]))
                    if label in ('U256op',):
                        opn = key.rsplit('::', 1)[-1]
                        desc = 'U256.%s(%s)' % (opn, ', '.join(D.operand(a) for a in t.args[:2]))
                    out.append(Site(body, bid, 'libcall', label, desc, t.span, t, t.args[:2], pre))
                    break
    return out


def reachable_bodies(prog, entry_names):
    """bodies (incl. closures) reachable from the entries through the crate-local may-call graph."""
    tops = set()
    stack = list(entry_names)
    m = prog.mentions()
    while stack:
        n = stack.pop()
        if n in tops:
            continue
        tops.add(n)
        for c in m.get(n, ()):
            if c not in tops:
                stack.append(c)
    out = []
    for b in prog.bodies:
        if b.promoted is not None:
            continue
        if prog.parent_fn(b).name in tops:
            out.append(b)
    return out, tops


# ---------------------------------------------------------------------------------------------
# automatic discharge

LOCK_OR_IO = re.compile(r'(RwLock::(read|write|try_read|try_write)|Mutex::lock|^<DB as \w+>::\w+|^<Snapshot as \w+>::\w+|^Batch::(put|put_kv|delete|commit)$|^Storage::get$|WriteBatch::(put|delete)|set_notify)')
STORE_DECODERS = {
    # functions that only decode bytes the store itself wrote (paired writer + layout rule named in the reason)
    'Storage::get_genesis_block': 'decodes GENESIS_BLOCK / BlockHash / TxHash records written by init_genesis_block',
    'Storage::get_last_state': 'decodes LAST_STATE written by update_last_state (layout agreement: C12.r3)',
    'Storage::get_last_n_headers': 'decodes LAST_N_HEADERS written by update_last_n_headers (layout agreement: C12.r3)',
    'Storage::get_filter_scripts': 'decodes FILTER_SCRIPTS records written by update_filter_scripts',
    'Storage::get_scripts_hash': 'decodes FILTER_SCRIPTS records written by update_filter_scripts',
    'Storage::get_transaction': 'decodes TxHash values written by Value::Transaction (layout agreement: C13.r1)',
    'Storage::get_transaction_with_header': 'decodes BlockNumber/BlockHash records written together with the TxHash record',
    'Storage::get_max_check_point_index': 'decodes MAX_CHECK_POINT_INDEX written by update_max_check_point_index',
    'Storage::get_min_filtered_block_number': 'decodes MIN_FILTERED_NUMBER written by update_min_filtered_block_number',
    'Storage::get_check_points': 'decodes CheckPointIndex values written by update_check_points',
    'Storage::get_last_check_point': 'reads the check point at the stored max index (written before the index)',
    'Storage::get_matched_blocks': 'decodes MATCHED_BLOCKS records written by add_matched_blocks',
    'parse_matched_blocks': 'decodes MATCHED_BLOCKS values written by add_matched_blocks (count || (hash,proved)*)',
    'Storage::update_block_number': 'decodes FILTER_SCRIPTS values (8-byte numbers) written by update_filter_scripts',
    'Storage::rollback_to_block': 'decodes Tx{Lock,Type}Script keys written by append_key (layout agreement: C03.r3) and reads back stored transactions',
    '<Storage as CellProvider>::cell': 'decodes stored records',
    '<Storage as HeaderProvider>::get_header': 'decodes stored records',
}


def rendered_cmp_guards(ctxlike, body, D):
    """[(bid, idx, op, a_txt, b_txt)] rendered primitive comparisons of a body"""
    out = []
    for bid, blk in body.blocks.items():
        if blk.cleanup:
            continue
        for i, s in enumerate(blk.stmts):
            if s.kind != 'assign':
                continue
            m = re.match(r'^(Eq|Ne|Lt|Le|Gt|Ge)\((.*), (.*)\)$', s.rhs.strip())
            if m and re.fullmatch(r'_\d+', s.lhs.strip()):
                names = [mm.group(1) for e in s.extra for mm in [re.search(r'Unevaluated\((\w+)', e)] if mm]
                ops = []
                for o in (m.group(2), m.group(3)):
                    if o.strip() == 'const _' and names:
                        ops.append(names.pop(0))
                    else:
                        ops.append(D.operand(o))
                out.append((bid, i, m.group(1), ops[0], ops[1]))
    return out


def _const_int(txt):
    m = re.fullmatch(r'(-?\d+)_(?:usize|u64|u32|u16|u8|i32|i64|isize)', txt.strip())
    return int(m.group(1)) if m else None


def implies_ge(op, a, b, x, y):
    """Which outcome ('true'/'false') of the comparison `op(a, b)` implies x >= y (rendered texts)?  Handles constants on
    the right side of both (x - K with a test on x against a constant)."""
    res = []
    if (a, b) == (x, y):
        res += {'Ge': ['true'], 'Gt': ['true'], 'Lt': ['false'], 'Le': ['false'], 'Eq': ['true']}.get(op, [])
    if (a, b) == (y, x):
        res += {'Le': ['true'], 'Lt': ['true'], 'Gt': ['false'], 'Ge': ['false'], 'Eq': ['true']}.get(op, [])
    ky, kb = _const_int(y), _const_int(b)
    if ky is not None and kb is not None and a == x:
        # x >= ky implied by: x > kb (kb >= ky-1), x >= kb (kb >= ky), !(x < kb) (kb >= ky), !(x <= kb) (kb >= ky-1),
        # !(x == 0) for ky == 1, x != 0 for ky == 1
        if op == 'Gt' and kb >= ky - 1:
            res.append('true')
        if op == 'Ge' and kb >= ky:
            res.append('true')
        if op == 'Lt' and kb >= ky:
            res.append('false')
        if op == 'Le' and kb >= ky - 1:
            res.append('false')
        if op == 'Eq' and kb == 0 and ky == 1:
            res.append('false')
        if op == 'Ne' and kb == 0 and ky == 1:
            res.append('true')
    return res


def implies_lt(op, a, b, x, y):
    """outcomes of op(a,b) implying x < y"""
    res = []
    if (a, b) == (x, y):
        res += {'Lt': ['true'], 'Ge': ['false']}.get(op, [])
    if (a, b) == (y, x):
        res += {'Gt': ['true'], 'Le': ['false']}.get(op, [])
    return res


class Discharger:
    def __init__(self, prog, taint=None):
        self.prog = prog
        self.taint = taint
        self._gf = {}
        self._D = {}
        self._cmps = {}

    def D(self, body):
        d = self._D.get(id(body))
        if d is None:
            d = self._D[id(body)] = Describer(body)
        return d

    def gf(self, body):
        from .flow import GuardFlow
        g = self._gf.get(id(body))
        if g is None:
            g = self._gf[id(body)] = GuardFlow(body, self.prog.cfg(body))
        return g

    def cmps(self, body):
        c = self._cmps.get(id(body))
        if c is None:
            c = self._cmps[id(body)] = rendered_cmp_guards(None, body, self.D(body))
        return c

    def guarded(self, body, site_block, want):
        """want(op, a, b) -> list of accepting outcomes.  True if some comparison, in one of its accepting outcomes,
        guards the site block (site unreachable in rejecting worlds and when the comparison did not run)."""
        for (bid, i, op, a, b) in self.cmps(body):
            for acc in want(op, a, b):
                ok, det = self.gf(body).check_sink((bid, i), acc, site_block, unconditional=True)
                if ok:
                    return 'guarded by %s(%s, %s)=%s' % (op, a, b, acc)
        return None

    def call_guard(self, body, site_block, pred, accept):
        for bid, t in self.prog.call_sites(body, pred):
            ok, det = self.gf(body).check_sink(bid, accept, site_block, unconditional=True)
            if ok:
                return 'guarded by %s=%s' % (mir.callee_key(t.callee), accept)
        return None

    def auto(self, s):
        """Returns a reason string if the site is discharged by a recognised idiom, else None."""
        body = s.body
        D = self.D(body)
        top = self.prog.parent_fn(body).name
        du = D.du
        if s.kind == 'assert':
            if s.sub in ('div0', 'rem0'):
                # operands: the dividend; the divisor constant shows in the cond definition Eq(const K, const 0)
                cond = s.term.cond.replace('move ', '').strip()
                d = _single_def(body, int(cond[1:])) if re.fullmatch(r'_\d+', cond) else None
                if d and re.match(r'^Eq\(const [1-9]\d*_\w+, const 0_\w+\)$', d.strip()):
                    return 'constant non-zero divisor'
                return None
            if s.sub == 'bounds':
                ln, idx = (D.operand(s.operands[0]), D.operand(s.operands[1])) if len(s.operands) == 2 else ('?', '?')
                kl, ki = _const_int(ln), _const_int(idx)
                if kl is not None and ki is not None and ki < kl:
                    return 'constant index %d into fixed-size array of %d' % (ki, kl)
                g = self.guarded(body, s.bid, lambda op, a, b: implies_lt(op, a, b, idx, ln))
                if g:
                    return g
                if ki is not None:
                    return self._len_at_least(body, s, ln, ki + 1)
                return None
            if s.sub.startswith('overflow('):
                opc = s.sub[9]
                a, b = (D.operand(s.operands[0]), D.operand(s.operands[1])) if len(s.operands) == 2 else ('?', '?')
                if opc == '-':
                    return self.guarded(body, s.bid, lambda op, x, y: implies_ge(op, x, y, a, b)) or self._empty_guard(body, s, a, b)
                if opc in ('+', '*'):
                    oa = du.origins(s.operands[0], stop_at_calls=False)
                    ob = du.origins(s.operands[1], stop_at_calls=False)
                    if all(self._bounded(o) for o in (oa, ob)):
                        return 'operands are lengths / small constants / indices (no wire-sized value)'
                    if self.taint is not None and not self.taint.wire_origins(body, oa) and not self.taint.wire_origins(body, ob) \
                            and not any(x[0] == 'const' and (_const_int(x[1].replace('const ', '')) or 0) > (1 << 32) for x in oa | ob):
                        return 'no operand derives from peer-supplied data (store counters, check-point arithmetic, lengths)'
                    return self._eq_local(body, s)
            return None
        if s.kind == 'libcall' and s.sub == 'Index' and len(s.operands) == 2:
            v, idx = D.operand(s.operands[0]), D.operand(s.operands[1])
            if 'Range' not in (s.term.callee or '') or 'RangeFull' in s.term.callee:
                if 'RangeFull' in s.term.callee:
                    return 'full range `[..]` never panics'
                ki = _const_int(idx)
                g = self.guarded(body, s.bid, lambda op, a, b: implies_lt(op, a, b, idx, v + '.len()'))
                if g:
                    return g
                if ki is not None:
                    return self._len_at_least(body, s, v + '.len()', ki + 1)
            return None
        if s.kind == 'unwrap':
            o = du.origins(s.operands[0], stop_at_calls=True) if s.operands else set()
            keys = [x[1] for x in o if x[0] == 'call']
            if keys and all(LOCK_OR_IO.search(k) for k in keys):
                return 'lock poisoning / local database I/O error (not message-triggered)'
            return None
        return None

    def _len_at_least(self, body, s, len_txt, k):
        """len_txt (rendered `x.len()`) >= k established by a guarding test"""
        if not len_txt.endswith('.len()'):
            return None
        v = len_txt[:-6]
        if k == 1:
            r = self.call_guard(body, s.bid, lambda kk, t, _v=v: kk.endswith('::is_empty') and self.D(body).operand(t.args[0]) == _v, 'false')
            if r:
                return r
        return self.guarded(body, s.bid, lambda op, a, b: implies_ge(op, a, b, len_txt, '%d_usize' % k))

    def _eq_local(self, body, s):
        """a wire operand of + or * is pinned by an equality test against a value that does not derive from peer data"""
        if self.taint is None or len(s.operands) != 2:
            return None
        D = self.D(body)
        du = D.du
        for opnd in s.operands:
            if not self.taint.wire(body, opnd):
                continue
            x = D.operand(opnd)
            found = None
            for (bid, i, op, a, b) in self.cmps(body):
                if op not in ('Eq', 'Ne') or x not in (a, b):
                    continue
                st = body.blocks[bid].stmts[i]
                m = re.match(r'^(Eq|Ne)\((.*), (.*)\)$', st.rhs.strip())
                other = m.group(3) if a == x else m.group(2)
                if self.taint.wire(body, other):
                    continue
                acc = 'true' if op == 'Eq' else 'false'
                ok, det = self.gf(body).check_sink((bid, i), acc, s.bid, unconditional=True)
                if ok:
                    found = 'peer value %s pinned by %s(%s, %s)=%s to a local value' % (x, op, a, b, acc)
                    break
            if not found:
                return None
            last = found
        return locals().get('last')

    def _empty_guard(self, body, s, a, b):
        kb = _const_int(b)
        if kb == 1 and a.endswith('.len()'):
            v = a[:-6]
            r = self.call_guard(body, s.bid, lambda k, t, _v=v: k.endswith('::is_empty') and self.D(body).operand(t.args[0]) == _v, 'false')
            if r:
                return r
        return None

    def _bounded(self, origins):
        """origin set made only of constants, lengths, enumerate indices and casts thereof"""
        has = False
        for o in origins:
            if o[0] == 'const':
                k = _const_int(o[1].replace('const ', ''))
                if k is not None and abs(k) > (1 << 32):
                    return False
                has = True
            elif o[0] == 'op':
                if o[1] in ('Len',):
                    has = True
                continue
            elif o[0] == 'call':
                k = o[1]
                if k.endswith('::len') or k.endswith('::count') or 'Enumerate' in k or k.endswith('Iterator>::enumerate') or k.endswith('::position') \
                        or k.endswith('IntoIterator>::into_iter') or k.endswith('Iterator>::next') or k.endswith('::iter') or k.endswith('Deref>::deref') \
                        or k.endswith('::as_slice') or k.endswith('::raw_data') or k.endswith('slice::windows') or k.endswith('::take') or k.endswith('::skip'):
                    has = True
                    continue
                return False
            elif o[0] in ('param', 'agg', 'named_const'):
                return False
        return has


# ---------------------------------------------------------------------------------------------
# wire provenance (type-directed, interprocedural over parameters)

WIRE_CALL = re.compile(
    r'^(<?(HeaderView|RawHeader|Header|VerifiableHeader|EpochNumberWithFraction|HeaderDigest|LastState|ProveState|ProveRequest|'
    r'BlockFilters|BlockFilterHashes|BlockFilterCheckPoints|FilteredBlock|Block|BlockView|UncleBlock|Transaction|RawTransaction|'
    r'CellOutput|CellInput|OutPoint|Script|Uint64|Uint32|Uint128|Uint256|Byte32|Bytes|BytesVec|Byte32Vec|HeaderVec|'
    r'VerifiableHeaderVec|HeaderDigestVec|MerkleProof|GetLastStateProof|GetBlocksProof|GetTransactionsProof|BlocksProofRequest|'
    r'TransactionsProofRequest|\w+Reader|\w+ReaderIterator|\w+Iterator)\b.*::\w+$'
    r'|.* as Unpack>::unpack$|.*(^|::)compact_to_difficulty$|.*::total_difficulty$|.* as Entity>::\w+$|.* as Reader>::\w+$)')
NONWIRE_CALL = re.compile(r'::(len|is_empty|count|iter|into_iter|next|enumerate|as_slice|as_bytes|raw_data|clone|to_owned|deref|as_ref|hash|calc_\w+hash|pack)$')


def is_wire_key(k):
    if NONWIRE_CALL.search(k):
        return False
    return bool(WIRE_CALL.match(k))


class Taint:
    def __init__(self, prog, bodies):
        self.prog = prog
        self.bodies = bodies
        self.du = {}
        self.tainted = set()   # (body name, param local)
        self._fix()

    def _du(self, b):
        d = self.du.get(id(b))
        if d is None:
            d = self.du[id(b)] = DefUse(b)
        return d

    def wire(self, body, operand):
        o = self._du(body).origins(operand, stop_at_calls=False)
        return self.wire_origins(body, o)

    def wire_origins(self, body, o):
        for x in o:
            if x[0] == 'call' and is_wire_key(x[1]):
                return True
            if x[0] == 'param':
                if (body.name, x[1]) in self.tainted:
                    return True
                if '::{closure#' in body.name and x[1] == 1:
                    return True   # closure environment: conservatively wire
        return False

    def _fix(self):
        P = self.prog
        changed = True
        rounds = 0
        while changed and rounds < 12:
            changed = False
            rounds += 1
            for b in self.bodies:
                for bid, k, t in P.call_keys(b):
                    if not P.has(k):
                        continue
                    for callee in P.by_name.get(k, []):
                        for i, a in enumerate(t.args):
                            if i >= len(callee.params):
                                break
                            pl = callee.params[i][0]
                            if (callee.name, pl) in self.tainted:
                                continue
                            ty = callee.params[i][1]
                            if not re.search(r'\b(u8|u16|u32|u64|u128|usize|U256|i32|i64)\b', ty):
                                # non-numeric params: taint decided at use sites through accessors
                                continue
                            if self.wire(b, a):
                                self.tainted.add((callee.name, pl))
                                changed = True
