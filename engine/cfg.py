"""Control-flow utilities over a parsed MIR Body.

The *normal-path* CFG drops cleanup blocks and unwind edges: a path through them means some
callee already panicked (the subject of C10), not that a guard was skipped.
"""
import re


class CFG:
    def __init__(self, body, diverging_as_exits=False):
        self.body = body
        self.diverging_as_exits = diverging_as_exits
        self.succ = {}
        self.pred = {}
        for bid, blk in body.blocks.items():
            if blk.cleanup:
                continue
            self.succ[bid] = []
            self.pred.setdefault(bid, [])
        for bid in list(self.succ):
            t = body.blocks[bid].term
            for s in t.targets:
                if s in self.succ and s not in self.succ[bid]:
                    self.succ[bid].append(s)
                    self.pred[s].append(bid)
        self.entry = 0
        self.exits = [bid for bid in self.succ if body.blocks[bid].term.kind == 'return']
        if diverging_as_exits:
            # a block without normal successors (panic!, unreachable, abort) ends the path too: a branch into it is a decision
            # (only diverging CALLS: an `unreachable` terminator — the impossible arm of a match — is never executed)
            self.exits += [bid for bid in self.succ if not self.succ[bid] and body.blocks[bid].term.kind == 'call']
        self._dom = None
        self._pdom = None

    # ---- reachability -----------------------------------------------------------------
    def reachable_from(self, starts, removed_nodes=(), removed_edges=()):
        seen = set()
        stack = [s for s in starts if s not in removed_nodes]
        while stack:
            b = stack.pop()
            if b in seen:
                continue
            seen.add(b)
            for s in self.succ.get(b, ()):
                if s in removed_nodes or (b, s) in removed_edges:
                    continue
                if s not in seen:
                    stack.append(s)
        return seen

    def reaches(self, target):
        """Set of blocks from which `target` is reachable (including itself)."""
        seen = set()
        stack = [target]
        while stack:
            b = stack.pop()
            if b in seen:
                continue
            seen.add(b)
            for p in self.pred.get(b, ()):
                if p not in seen:
                    stack.append(p)
        return seen

    # ---- dominators -------------------------------------------------------------------
    def _compute_dom(self, entry, succ, pred):
        # iterative set-based dominators restricted to nodes reachable from entry
        reach = set()
        order = []
        stack = [entry]
        while stack:
            b = stack.pop()
            if b in reach:
                continue
            reach.add(b)
            order.append(b)
            for s in succ.get(b, ()):
                if s not in reach:
                    stack.append(s)
        dom = {b: set(reach) for b in reach}
        dom[entry] = {entry}
        changed = True
        while changed:
            changed = False
            for b in order:
                if b == entry:
                    continue
                ps = [p for p in pred.get(b, ()) if p in reach]
                if not ps:
                    continue
                new = set(dom[ps[0]])
                for p in ps[1:]:
                    new &= dom[p]
                new.add(b)
                if new != dom[b]:
                    dom[b] = new
                    changed = True
        return dom

    @property
    def dom(self):
        if self._dom is None:
            self._dom = self._compute_dom(self.entry, self.succ, self.pred)
        return self._dom

    @property
    def pdom(self):
        """Post-dominators w.r.t. a virtual exit joining all `return` blocks.  Blocks that cannot
        reach a return (diverging) are absent."""
        if self._pdom is None:
            VX = -1
            succ = {VX: list(self.exits)}
            pred = {}
            for b, ss in self.succ.items():
                for s in ss:
                    succ.setdefault(s, []).append(b)
                    pred.setdefault(b, []).append(s)
            for e in self.exits:
                pred.setdefault(e, []).append(VX)
            self._pdom = self._compute_dom(VX, succ, pred)
        return self._pdom

    def dominates(self, a, b):
        """a dominates b (every path entry->b passes a)."""
        d = self.dom.get(b)
        return d is not None and a in d

    def postdominates(self, a, b):
        """every path b->return passes a."""
        d = self.pdom.get(b)
        return d is not None and a in d

    def reachable(self):
        return set(self.dom.keys())

    def control_deps(self, x):
        """Decision blocks (>=2 successors) on which block x is control dependent: x post-dominates
        one successor of the decision but does not strictly post-dominate the decision itself."""
        out = []
        for a, ss in self.succ.items():
            if len(ss) < 2:
                continue
            if a != x and self.postdominates(x, a):
                continue
            if any(self.postdominates(x, b) or b == x for b in ss):
                out.append(a)
        return out


_LOCAL_RE = re.compile(r'_(\d+)\b')


def locals_in(text):
    return [int(x) for x in _LOCAL_RE.findall(text)]


def base_local(place):
    """Base local of a place expression like '((*_5).1: T)' / '(_4 as Some).0' / '_7'."""
    m = _LOCAL_RE.search(place)
    return int(m.group(1)) if m else None


def operand_place(op):
    """'move _5' / 'copy _5' / '_5' / 'const ...' -> place text or None for constants."""
    op = op.strip()
    if op.startswith('const '):
        return None
    if op.startswith('move '):
        return op[5:]
    if op.startswith('copy '):
        return op[5:]
    return op


def is_plain_local(place):
    return bool(re.fullmatch(r'_\d+', place.strip()))
