"""P4 — lock guard live ranges, held regions, protected functions, acquired-while-holding graph.

Locks are identified by the *type* the guard protects:
  std RwLock / Mutex guards:  RwLockWriteGuard<'_, T> / RwLockReadGuard<'_, T> / MutexGuard<'_, T>
  DashMap guards:             dashmap::mapref::one::{Ref,RefMut}<'_, K, V>, multiple::{RefMulti,RefMutMulti},
                              dashmap::iter::{Iter,IterMut}<'_, K, V>  (an iterator holds a shard lock while live)
"""
import re
from .cfg import CFG, base_local, locals_in
from . import mir

GUARD_TY = [
    (re.compile(r"^(?:std::sync::)?RwLockWriteGuard<'_, (.*)>$"), 'rw', 'write'),
    (re.compile(r"^(?:std::sync::)?RwLockReadGuard<'_, (.*)>$"), 'rw', 'read'),
    (re.compile(r"^(?:std::sync::)?MutexGuard<'_, (.*)>$"), 'mutex', 'write'),
    (re.compile(r"^dashmap::mapref::one::RefMut<'_, (.*)>$"), 'dash', 'write'),
    (re.compile(r"^dashmap::mapref::one::Ref<'_, (.*)>$"), 'dash', 'read'),
    (re.compile(r"^dashmap::mapref::multiple::RefMutMulti<'_, (.*)>$"), 'dash', 'write'),
    (re.compile(r"^dashmap::mapref::multiple::RefMulti<'_, (.*)>$"), 'dash', 'read'),
    (re.compile(r"^dashmap::iter::IterMut<'_, (.*)>$"), 'dash', 'write'),
    (re.compile(r"^dashmap::iter::Iter<'_, (.*)>$"), 'dash', 'read'),
]

SHORT = [
    ('HashMap<H256, (bool, Option<Block>)>', 'L_mb'),
    ('(u32, Vec<Byte32>)', 'L_cache'),
    ('Option<Instant>', 'L_ask'),
    ('PendingTxs', 'L_pool'),
    ('SessionId, Peer', 'D_peers'),
    ('Byte32, FetchInfo', 'D_fetch'),
]


def short_ty(t):
    """strip module paths: `std::collections::HashMap<ckb_types::H256, ..>` -> `HashMap<H256, ..>`"""
    return re.sub(r'(?:\w+::)+(\w+)', r'\1', t.strip())


def lock_name(kind, tparam):
    st = short_ty(tparam)
    for full, short in SHORT:
        if st == full:
            return short
    return '%s<%s>' % (kind, st)


def guard_type(ty):
    ty = ty.strip()
    for rx, kind, mode in GUARD_TY:
        m = rx.match(ty)
        if m:
            return lock_name(kind, m.group(1)), kind, mode
    return None


# direct (guard-less) DashMap operations: each takes shard locks for the duration of the call
DASH_OP = re.compile(r'^DashMap::<(.*?)>::(get|get_mut|insert|remove|iter|iter_mut|contains_key|entry|len|is_empty|retain|clear|alter|alter_all|remove_if|view|try_get|try_get_mut)\b')
RW_ACQ = re.compile(r'^(?:std::sync::)?RwLock::<(.*)>::(read|write|try_read|try_write)$')


class Region:
    def __init__(self, body, lock, kind, mode, locs, start_block, blocks, at):
        self.body, self.lock, self.kind, self.mode = body, lock, kind, mode
        self.locals, self.start, self.blocks, self.at = locs, start_block, blocks, at

    def __repr__(self):
        return 'Region(%s %s in %s @%s, %d blocks)' % (self.lock, self.mode, self.body.name, self.at, len(self.blocks))


class Locks:
    def __init__(self, prog):
        self.prog = prog
        self._regions = {}
        self._acq = None

    # ---- regions -----------------------------------------------------------------------
    def regions(self, body):
        key = id(body)
        if key in self._regions:
            return self._regions[key]
        cfg = self.prog.cfg(body)
        out = []
        gl = {}
        for loc, ty in body.locals.items():
            g = guard_type(ty)
            if g:
                gl[loc] = g
        # alias groups: guard moved into another guard local
        parent = {l: l for l in gl}

        def find(x):
            while parent[x] != x:
                parent[x] = parent[parent[x]]
                x = parent[x]
            return x
        defs = {}  # local -> [(bid, kind)] where the guard value is produced
        for bid, blk in body.blocks.items():
            if blk.cleanup:
                continue
            for i, s in enumerate(blk.stmts):
                if s.kind == 'assign':
                    lhs = s.lhs.strip()
                    m = re.fullmatch(r'_(\d+)', lhs)
                    if m and int(m.group(1)) in gl:
                        dst = int(m.group(1))
                        src = re.fullmatch(r'move _(\d+)', s.rhs.strip())
                        if src and int(src.group(1)) in gl:
                            parent[find(dst)] = find(int(src.group(1)))
                        else:
                            sm = re.match(r'^move \(\(_(\d+) as (Some|Ok)\)\.0: ', s.rhs.strip())
                            defs.setdefault(dst, []).append((bid, 'stmt', i))
            t = blk.term
            if t.kind == 'call' and t.dest:
                m = re.fullmatch(r'_(\d+)', t.dest.strip())
                if m and int(m.group(1)) in gl:
                    defs.setdefault(int(m.group(1)), []).append((bid, 'call', None))
        groups = {}
        for l in gl:
            groups.setdefault(find(l), set()).add(l)
        for root, members in groups.items():
            lock, kind, mode = gl[root]
            dsites = []
            for l in members:
                for d in defs.get(l, []):
                    dsites.append((l, d))
            if not dsites:
                continue
            drop_blocks = set()
            moved_blocks = set()
            for bid, blk in body.blocks.items():
                if blk.cleanup:
                    continue
                t = blk.term
                if t.kind == 'drop' and base_local(t.place) in members and re.fullmatch(r'_\d+', t.place.strip()):
                    drop_blocks.add(bid)
                if t.kind == 'call':
                    for a in t.args:
                        ma = re.fullmatch(r'move _(\d+)', a.strip())
                        if ma and int(ma.group(1)) in members:
                            moved_blocks.add(bid)   # guard moved into a callee (mem::drop, adaptor)
            for l, (bid, dk, idx) in dsites:
                # skip defs that are moves between members (handled by union)
                starts = cfg.succ.get(bid, []) if dk == 'call' else [bid]
                if dk == 'call':
                    t = body.blocks[bid].term
                    starts = [x for x in t.targets if x in cfg.succ]
                held = cfg.reachable_from(starts, removed_nodes=set()) if False else self._held(cfg, starts, drop_blocks | moved_blocks)
                at = body.blocks[bid].term.span if dk == 'call' else body.blocks[bid].stmts[idx].span
                out.append(Region(body, lock, kind, mode, members, bid, held, at))
        self._regions[key] = out
        return out

    @staticmethod
    def _held(cfg, starts, release_blocks):
        """blocks reachable from starts; a release block is included (its statements run while held)
        but not expanded."""
        seen = set()
        stack = list(starts)
        while stack:
            b = stack.pop()
            if b in seen:
                continue
            seen.add(b)
            if b in release_blocks:
                continue
            for s in cfg.succ.get(b, ()):
                if s not in seen:
                    stack.append(s)
        return seen

    def held_at(self, body, bid, lock=None, mode=None):
        """Regions of `body` that are live at block bid's terminator."""
        res = []
        for r in self.regions(body):
            if bid in r.blocks and (lock is None or r.lock == lock) and (mode is None or r.mode == mode):
                # a release block's terminator is the release itself
                t = body.blocks[bid].term
                if t.kind == 'drop' and base_local(t.place) in r.locals:
                    continue
                res.append(r)
        return res

    # ---- direct acquisitions -----------------------------------------------------------
    def direct_acquires(self, body):
        """[(bid, lock, mode, term)] lock acquisitions performed directly in `body`."""
        out = []
        for bid, blk in body.blocks.items():
            if blk.cleanup:
                continue
            t = blk.term
            if t.kind != 'call':
                continue
            c = t.callee
            m = RW_ACQ.match(mir_strip(c))
            if m:
                out.append((bid, lock_name('rw', m.group(1)), 'write' if 'write' in m.group(2) else 'read', t))
                continue
            m = DASH_OP.match(c)
            if m:
                op = m.group(2)
                mode = 'read' if op in ('get', 'iter', 'contains_key', 'len', 'is_empty', 'view', 'try_get') else 'write'
                out.append((bid, lock_name('dash', m.group(1)), mode, t))
        return out

    def acquire_sets(self):
        """function name -> set of (lock, mode) acquired by it or (transitively) by its callees and
        closures."""
        if self._acq is not None:
            return self._acq
        P = self.prog
        direct = {}
        for b in P.bodies:
            if b.promoted is not None:
                continue
            top = P.parent_fn(b).name
            for bid, lock, mode, t in self.direct_acquires(b):
                direct.setdefault(top, set()).add((lock, mode))
        m = P.mentions()
        acq = {k: set(v) for k, v in direct.items()}
        changed = True
        while changed:
            changed = False
            for f, callees in m.items():
                cur = acq.setdefault(f, set())
                n0 = len(cur)
                for c in callees:
                    cur |= acq.get(c, set())
                if len(cur) != n0:
                    changed = True
        self._acq = acq
        return acq

    def acquire_sets_body(self, body, _depth=0):
        """(lock, mode) pairs acquired while executing `body`: its own direct acquisitions, those of
        crate-local callees (function granularity, transitive) and of the closures it constructs."""
        P = self.prog
        acq = self.acquire_sets()
        out = set((l, m) for _, l, m, _ in self.direct_acquires(body))
        for bid, k, t in P.call_keys(body):
            if P.has(k):
                out |= acq.get(k, set())
            for a in t.args:
                a2 = a.strip()
                if '::' in a2 and not a2.startswith(('move ', 'copy ', 'const ', '_', '&')):
                    k2 = mir.callee_key(a2)
                    if P.has(k2):
                        out |= acq.get(k2, set())
        if _depth < 6:
            for c in P.closures_of(body, transitive=False):
                out |= self.acquire_sets_body(c, _depth + 1)
        return out

    # ---- protected functions -------------------------------------------------------------
    def protected(self, lock, mode='write', entries=(), exempt_callers=()):
        """Greatest fixpoint: set of top-level functions every call site of which (in any caller,
        including closures) lies inside a held region of `lock`/`mode`, or inside a protected
        function.  Returns (protected set, unprotected witness: fn -> (caller, span))."""
        P = self.prog
        tops = sorted({P.parent_fn(b).name for b in P.bodies if b.promoted is None})
        # call sites: callee -> [(caller body, bid, term)]
        sites = {}
        for b in P.bodies:
            if b.promoted is not None:
                continue
            for bid, k, t in P.call_keys(b):
                if P.has(k):
                    sites.setdefault(k, []).append((b, bid, t))
                # function items passed as values count as calls from b at that site
                for a in t.args:
                    a2 = a.strip()
                    if '::' in a2 and not a2.startswith(('move ', 'copy ', 'const ', '_', '&')):
                        k2 = mir.callee_key(a2)
                        if P.has(k2):
                            sites.setdefault(k2, []).append((b, bid, t))
        prot = set(tops) - set(entries)
        witness = {}
        # closure protection: a closure body's statements run where the closure is invoked; we take
        # the construction site in the parent.
        def body_protected(b, bid):
            """is block bid of body b executed under the lock?"""
            if self.held_at(b, bid, lock, mode):
                return True
            if '::{closure#' in b.name:
                # find construction site in the lexical parent body
                par = self._lexical_parent(b)
                if par is not None:
                    for pb, cbody in P.closure_sites(par, lambda k, t: False) or []:
                        pass
                    site = self._closure_construction(par, b)
                    if site is not None:
                        return body_protected(par, site)
                return False
            return P.parent_fn(b).name in prot

        changed = True
        while changed:
            changed = False
            for f in sorted(prot):
                ss = sites.get(f, [])
                if not ss:
                    # never called from crate code: treat as entry (unprotected)
                    prot.discard(f)
                    witness[f] = ('<no crate-local caller>', None)
                    changed = True
                    continue
                for (b, bid, t) in ss:
                    if P.parent_fn(b).name in exempt_callers:
                        continue
                    if not body_protected(b, bid):
                        prot.discard(f)
                        witness[f] = (b.name, t.span)
                        changed = True
                        break
        self._last_body_protected = body_protected
        return prot, witness

    def _lexical_parent(self, clos):
        n = clos.name
        k = n.rfind('::{closure#')
        base = n[:k]
        for b in self.prog.by_name.get(base, []):
            if b.file == clos.file:
                return b
        return None

    def _closure_construction(self, parent, clos):
        m = re.search(r'\[closure@([^\]]+)\]', clos.sig_args)
        if not m:
            m = re.search(r'\[async block@([^\]]+)\]', clos.sig_args)
            if not m:
                return None
        tag = m.group(1)
        for bid, blk in parent.blocks.items():
            if blk.cleanup:
                continue
            for st in blk.stmts:
                if st.kind == 'assign' and (('closure@' + tag) in st.rhs or ('async block@' + tag) in st.rhs):
                    return bid
        return None


def mir_strip(callee):
    """strip the method-level turbofish only (keep the type's generics)"""
    return re.sub(r'::<[^<>]*>$', '', callee.strip())
