"""Field names of the crate's own structs, from the source text (MIR projections carry only the field index).  Used to render
`base.6` as `base.check_point_interval`, so that inserting a field into a struct does not change every description that mentions a
later field.  Struct names defined more than once in the crate are left alone."""
import os
import re

_CACHE = {}


def index(repo):
    if repo in _CACHE:
        return _CACHE[repo]
    defs = {}
    dup = set()
    for root, ds, fs in os.walk(os.path.join(repo, 'src')):
        if os.sep + 'tests' in root:
            continue
        for f in fs:
            if not f.endswith('.rs'):
                continue
            try:
                txt = open(os.path.join(root, f), errors='replace').read()
            except OSError:
                continue
            txt = re.sub(r'//[^\n]*', '', txt)
            for m in re.finditer(r'\bstruct\s+(\w+)\s*(?:<[^>{;(]*>)?\s*(?:where[^{]*)?\{', txt):
                name = m.group(1)
                i = m.end()
                depth, j = 1, i
                while j < len(txt) and depth:
                    if txt[j] == '{':
                        depth += 1
                    elif txt[j] == '}':
                        depth -= 1
                    j += 1
                body = txt[i:j - 1]
                fields = []
                d = 0
                cur = ''
                for ch in body:
                    if ch in '<([{':
                        d += 1
                    elif ch in '>)]}':
                        d -= 1
                    if ch == ',' and d == 0:
                        fields.append(cur)
                        cur = ''
                    else:
                        cur += ch
                if cur.strip():
                    fields.append(cur)
                names = []
                odd = False
                for fld in fields:
                    attrs = re.findall(r'#\[([^\]]*)\]', fld)
                    if any(re.fullmatch(r'cfg\(\s*test\s*\)', a.strip()) for a in attrs):
                        continue          # the analysed build is the non-test bin target
                    if any(a.strip().startswith('cfg') and not re.fullmatch(r'cfg\(\s*not\(\s*test\s*\)\s*\)', a.strip()) for a in attrs):
                        odd = True        # some other conditional field: indices cannot be told from the text
                    fld = re.sub(r'#\[[^\]]*\]', '', fld).strip()
                    mm = re.match(r'(?:pub(?:\([^)]*\))?\s+)?(\w+)\s*:', fld)
                    if mm:
                        names.append(mm.group(1))
                if name in defs or odd or len(set(names)) != len(names):
                    dup.add(name)
                defs[name] = names
    for n in dup:
        defs.pop(n, None)
    _CACHE[repo] = defs
    return defs


def struct_of(ty):
    """Last path segment of a (possibly referenced / boxed) type, or None."""
    t = (ty or '').strip()
    for _ in range(6):
        t2 = re.sub(r"^&(?:'\w+\s+)?(?:mut\s+)?", '', t).strip()
        m = re.match(r'^(?:std::sync::|alloc::sync::|std::boxed::|std::rc::)?(?:Arc|Box|Rc)<(.*)>$', t2)
        t2 = m.group(1).strip() if m else t2
        if t2 == t:
            break
        t = t2
    t = re.sub(r'<.*$', '', t)
    m = re.search(r'(\w+)$', t)
    return m.group(1) if m else None
