"""Jump threading on a (cloned / inlined) MIR body: a normal form for the exit census in which a decision is a branch on the
value that was tested, not on a flag local that carries it.

rustc lowers `a && b`, `a || b`, `if helper_returning_bool(..)`, `let ok = ..; if ok` into

      bbP1: _f = const false; goto bbS          bbP2: _f = move _t; goto bbS          bbS: switchInt(move _f) -> [0: bbA, otherwise: bbB]

and MIR-level inlining of a predicate helper produces the same shape (`dest = const true` in each returning block of the helper,
then the caller's `switchInt(move dest)`).  Whether the source says `if a && b {..}`, `if a { if b {..} }`, or `if both(a, b) {..}`
must not matter.  Every small switch block (only storage markers, copies, constants and `Not`) is duplicated into each of its
`goto` predecessors; in the copy the discriminant is resolved through the predecessor's trailing copies / constants / negations:
a constant selects the target (the branch disappears), a copy makes the branch test the original value.  Repeated to a fixpoint,
then unreachable blocks are dropped.  Duplicating statement-only code is semantics preserving; call terminators are never
duplicated."""
import re
from . import mir

_LOCAL = re.compile(r'^(?:move |copy )?(_\d+)$')
_TRIV = ('live', 'dead', 'nop')


def _const_val(rhs):
    rhs = rhs.strip()
    if rhs == 'const true':
        return 1
    if rhs == 'const false':
        return 0
    m = re.fullmatch(r'const (-?\d+)_[iu](?:\d+|size)', rhs)
    if m:
        return int(m.group(1))
    return None


def _small(blk, limit=6):
    n = 0
    for s in blk.stmts:
        if s.kind in _TRIV:
            continue
        if s.kind != 'assign' or not re.fullmatch(r'_\d+', (s.lhs or '').strip()):
            return False
        r = (s.rhs or '').strip()
        if not (_LOCAL.match(r) or _const_val(r) is not None or re.fullmatch(r'Not\((?:move |copy )?_\d+\)', r)):
            return False
        n += 1
    return n <= limit


def _copy_stmt(s):
    n = mir.Stmt(s.kind, s.lhs, s.rhs, s.text, s.span)
    n.extra = list(s.extra)
    return n


def _resolve(stmts, loc):
    """Value of local `loc` after executing the straight-line `stmts`: ('const', v) | ('local', name, negated) | None."""
    neg = False
    cur = loc
    n = len(stmts)
    for i in range(n - 1, -1, -1):
        s = stmts[i]
        if s.kind == 'assign' and (s.lhs or '').strip() == cur:
            mm = _LOCAL.match((s.rhs or '').strip()) or re.fullmatch(r'Not\((?:move |copy )?(_\d+)\)', (s.rhs or '').strip())
            if mm and any(t.kind == 'assign' and (t.lhs or '').strip() == mm.group(1) for t in stmts[i + 1:]):
                return None          # the source local is overwritten before the branch
    for s in reversed(stmts):
        if s.kind != 'assign' or (s.lhs or '').strip() != cur:
            # an assignment to a place *containing* cur (e.g. `(_5.0) = ..`) would not be a plain local lhs; ignore others
            continue
        r = (s.rhs or '').strip()
        v = _const_val(r)
        if v is not None:
            if neg:
                if v not in (0, 1):
                    return None
                v = 1 - v
            return ('const', v)
        m = _LOCAL.match(r)
        if m:
            cur = m.group(1)
            continue
        m = re.fullmatch(r'Not\((?:move |copy )?(_\d+)\)', r)
        if m:
            cur = m.group(1)
            neg = not neg
            continue
        # defined by something else inside this straight line: the branch tests that definition (only if not yet renamed)
        return ('local', cur, neg) if cur != loc or neg else None
    if cur != loc or neg:
        return ('local', cur, neg)
    return None


def _switch_target(cases, v):
    other = None
    for val, b in cases:
        if val == 'otherwise':
            other = b
        elif int(val) == v:
            return b
    return other


def _mk_goto(b, span):
    t = mir.Term('goto', 'goto -> bb%d' % b, span)
    t.targets = [b]
    return t


def _loop_heads(blocks):
    """Blocks that can reach themselves (cheap: recomputed on demand, bodies are small)."""
    key = id(blocks), len(blocks)
    if _loop_heads.cache[0] == key:
        return _loop_heads.cache[1]
    succ = {b: [t for t in (k.term.targets or []) if t in blocks] for b, k in blocks.items() if not k.cleanup}
    heads = set()
    for b in succ:
        seen, st = set(), list(succ[b])
        while st:
            n = st.pop()
            if n == b:
                heads.add(b)
                break
            if n in seen:
                continue
            seen.add(n)
            st.extend(succ.get(n, []))
    _loop_heads.cache = (key, heads)
    return heads


_loop_heads.cache = (None, set())


def _landing_blocks(blocks):
    """A call whose return edge enters a merge block gets a landing block of its own, so that the merge can be duplicated for it."""
    preds0 = {}
    for bid, blk in blocks.items():
        if not blk.cleanup:
            for t in (blk.term.targets or []):
                preds0.setdefault(t, []).append(bid)
    nxt = max(blocks) + 1 if blocks else 0
    made = 0
    for bid in sorted(blocks):
        blk = blocks[bid]
        if blk.cleanup or blk.term.kind not in ('call', 'drop') or len(blk.term.targets or []) != 1:
            continue
        tg = blk.term.targets[0]
        if len(set(preds0.get(tg, []))) > 1 and tg in blocks and not blocks[tg].cleanup and blocks[tg].term.kind in ('switchInt', 'goto'):
            e = mir.Block(nxt, False)
            e.term = _mk_goto(tg, blk.term.span)
            blocks[nxt] = e
            blk.term.targets = [nxt]
            nxt += 1
            made += 1
    return made


def _merge_chains(blocks):
    """Maximal straight-line blocks: a block that ends in `goto` / `drop` into a block with no other predecessor absorbs it (a
    `drop` becomes a no-op statement: this copy of the body is only read for values, decisions and calls)."""
    merged = 0
    while True:
        preds = {}
        for bid, blk in blocks.items():
            if not blk.cleanup:
                for t in (blk.term.targets or []):
                    preds.setdefault(t, []).append(bid)
        entry = 0 if 0 in blocks else (min(blocks) if blocks else None)
        did = False
        for bid in sorted(blocks):
            B = blocks.get(bid)
            if B is None or B.cleanup or B.term.kind not in ('goto', 'drop') or len(B.term.targets or []) != 1:
                continue
            tid = B.term.targets[0]
            T = blocks.get(tid)
            if T is None or T.cleanup or tid == bid or tid == entry or len(preds.get(tid, [])) != 1:
                continue
            if B.term.kind == 'drop':
                B.stmts = B.stmts + [mir.Stmt('nop', None, None, 'drop ' + (B.term.place or ''), B.term.span)]
            B.stmts = B.stmts + list(T.stmts)
            B.term = T.term
            del blocks[tid]
            merged += 1
            did = True
            break
        if not did:
            return merged


def thread(body, rounds=12):
    """In-place on a body that is private to the caller (clone / inlined copy).  Returns the number of threaded edges."""
    blocks = body.blocks
    total = 0
    dup_budget = [300]
    for _ in range(rounds):
        _merge_chains(blocks)
        _landing_blocks(blocks)
        preds = {}
        for bid, blk in blocks.items():
            if blk.cleanup:
                continue
            for t in (blk.term.targets or []):
                preds.setdefault(t, []).append(bid)
        changed = 0
        for sid in sorted(blocks):
            S = blocks.get(sid)
            if S is None or S.cleanup or S.term.kind != 'switchInt' or not S.term.cases:
                continue
            m = _LOCAL.match((S.term.discr or '').strip())
            if not m or not _small(S):
                continue
            x = m.group(1)
            # constant inside S itself
            r = _resolve(S.stmts, x)
            if r and r[0] == 'const':
                tgt = _switch_target(S.term.cases, r[1])
                if tgt is not None:
                    S.term = _mk_goto(tgt, S.term.span)
                    changed += 1
                    continue
            for pid in list(preds.get(sid, [])):
                P = blocks.get(pid)
                if P is None or P is S or P.term.kind != 'goto' or P.term.targets != [sid]:
                    continue
                seq = list(P.stmts) + list(S.stmts)
                r = _resolve(seq, x)
                if not r:
                    # nothing to resolve: still give this predecessor its own copy of the branch (the value that reaches it
                    # is then the one defined on this path only, once the other paths' flag stores are gone)
                    if len(set(preds.get(sid, []))) > 1 and dup_budget[0] > 0 and sid not in _loop_heads(blocks):
                        dup_budget[0] -= 1
                        P.stmts = P.stmts + [_copy_stmt(s) for s in S.stmts]
                        nt = mir.Term('switchInt', S.term.text, S.term.span)
                        nt.discr = S.term.discr
                        nt.cases = list(S.term.cases)
                        nt.targets = [b for _v, b in nt.cases]
                        nt.extra = list(S.term.extra)
                        P.term = nt
                        preds[sid] = [q for q in preds[sid] if q != pid]
                        changed += 1
                    continue
                if r[0] == 'const':
                    tgt = _switch_target(S.term.cases, r[1])
                    if tgt is None:
                        continue
                    P.stmts = P.stmts + [_copy_stmt(s) for s in S.stmts]
                    P.term = _mk_goto(tgt, S.term.span)
                    changed += 1
                    continue
                _, y, neg = r
                cases = list(S.term.cases)
                if neg:
                    vals = [v for v, _b in cases]
                    if sorted(map(str, vals)) != ['0', 'otherwise']:
                        continue
                    d = dict(cases)
                    cases = [(0, d['otherwise']), ('otherwise', d[0])]
                P.stmts = P.stmts + [_copy_stmt(s) for s in S.stmts]
                nt = mir.Term('switchInt', 'switchInt(copy %s) -> %s' % (y, cases), S.term.span)
                nt.discr = 'copy %s' % y
                nt.cases = cases
                nt.targets = [b for _v, b in cases]
                nt.extra = list(S.term.extra)
                P.term = nt
                changed += 1
        total += changed
        if not changed:
            break
    # drop unreachable blocks
    entry = min(b for b, k in blocks.items() if not k.cleanup) if blocks else None
    if entry is not None and 0 in blocks:
        entry = 0
    seen = set()
    stack = [entry] if entry is not None else []
    while stack:
        b = stack.pop()
        if b in seen or b not in blocks:
            continue
        seen.add(b)
        stack.extend(blocks[b].term.targets or [])
    for b in [b for b, k in blocks.items() if b not in seen and not k.cleanup]:
        del blocks[b]
    body._threaded = total
    total += _split_exits(body)
    if total:
        for _ in range(6):
            if not _dead_flag_stores(body):
                break
    return total


def _copy_term_goto(t):
    n = mir.Term(t.kind, t.text, t.span)
    n.targets = list(t.targets)
    n.place = t.place
    n.discr = t.discr
    n.cases = list(t.cases) if t.cases is not None else None
    n.extra = list(t.extra)
    return n


def _split_exits(body, limit=10, max_new=400):
    """Tail duplication towards the returns: a statement-only block that ends in `goto` / `return`, from which only such blocks
    are reachable, and that has several predecessors, is copied for each predecessor — so that every path that decides a result
    owns its exit (`return None` written once for two failed tests, or once per test, gives the same exits)."""
    blocks = body.blocks
    made = 0

    def tailish(bid, seen=()):
        k = blocks.get(bid)
        if k is None or k.cleanup or bid in seen:
            return False
        if any(s.kind not in _TRIV and s.kind != 'assign' for s in k.stmts) or len([s for s in k.stmts if s.kind == 'assign']) > limit:
            return False
        if k.term.kind == 'return':
            return True
        if k.term.kind in ('goto', 'drop') and len(k.term.targets) == 1:
            return tailish(k.term.targets[0], seen + (bid,))
        if k.term.kind == 'switchInt' and k.term.targets and len(seen) < 12:      # drop-flag tests on the way out
            return all(tailish(x, seen + (bid,)) for x in k.term.targets)
        return False
    for _ in range(8):
        preds = {}
        for bid, blk in blocks.items():
            if blk.cleanup:
                continue
            for t in (blk.term.targets or []):
                preds.setdefault(t, []).append(bid)
        todo = [b for b in sorted(blocks) if len(set(preds.get(b, []))) > 1 and tailish(b)
                and any(s.kind == 'assign' for s in blocks[b].stmts)]
        if not todo or made > max_new:
            break
        nxt = max(blocks) + 1
        for b in todo:
            ps = sorted(set(preds.get(b, [])))
            for p in ps[1:]:
                src = blocks[b]
                nb = mir.Block(nxt, False)
                nb.stmts = [_copy_stmt(s) for s in src.stmts]
                nb.term = _copy_term_goto(src.term)
                blocks[nxt] = nb
                pt = blocks[p].term
                pt.targets = [nxt if x == b else x for x in pt.targets]
                if pt.cases is not None:
                    pt.cases = [(v, nxt if x == b else x) for v, x in pt.cases]
                nxt += 1
                made += 1
    return made


_TOK = re.compile(r'(?<![\w])_(\d+)\b')


def _uses_defs(blk):
    """(use-before-def set, def set) of plain locals for one block; partial writes and borrows count as uses."""
    use, dfn = set(), set()

    def rd(text):
        for m in _TOK.finditer(text or ''):
            l = '_' + m.group(1)
            if l not in dfn:
                use.add(l)
    for s in blk.stmts:
        if s.kind == 'assign':
            rd(s.rhs)
            lhs = (s.lhs or '').strip()
            if re.fullmatch(r'_\d+', lhs):
                dfn.add(lhs)
            else:
                rd(lhs)
        elif s.kind not in _TRIV:
            rd(s.text)
    t = blk.term
    for a in (t.args or []):
        rd(a)
    for x in (t.discr, t.cond, t.place, t.callee if t.callee and re.match(r'^(move |copy )?_\d+', t.callee.strip()) else None):
        rd(x)
    for o in (t.operands or []):
        rd(o)
    if t.kind not in ('call', 'goto', 'switchInt', 'drop', 'assert', 'return'):
        rd(t.text)
    if t.kind == 'return':
        use.add('_0') if '_0' not in dfn else None
    if t.kind == 'call' and t.dest:
        d = t.dest.strip()
        if re.fullmatch(r'_\d+', d):
            dfn.add(d)
        else:
            rd(d)
    return use, dfn


def _dead_flag_stores(body):
    """Remove `_f = const ..` / `_f = move _g` / `_f = Not(_g)` whose value is never read (flags made redundant by threading),
    so that the flow-insensitive describer does not merge them into the values that still reach a branch."""
    removed = 0
    blocks = {b: k for b, k in body.blocks.items() if not k.cleanup}
    ud = {b: _uses_defs(k) for b, k in blocks.items()}
    live_in = {b: set(ud[b][0]) for b in blocks}
    changed = True
    while changed:
        changed = False
        for b, k in blocks.items():
            out = set()
            for t in (k.term.targets or []):
                out |= live_in.get(t, set())
            new = ud[b][0] | (out - ud[b][1])
            if new != live_in[b]:
                live_in[b] = new
                changed = True
    for b, k in blocks.items():
        live = set()
        for t in (k.term.targets or []):
            live |= live_in.get(t, set())
        # terminator reads
        tu = set()
        t = k.term
        for x in list(t.args or []) + [t.discr, t.cond, t.place] + list(t.operands or []):
            for m in _TOK.finditer(x or ''):
                tu.add('_' + m.group(1))
        if t.kind == 'return':
            tu.add('_0')
        if t.kind not in ('call', 'goto', 'switchInt', 'drop', 'assert', 'return'):
            for m in _TOK.finditer(t.text or ''):
                tu.add('_' + m.group(1))
        if t.kind == 'call' and t.dest and re.fullmatch(r'_\d+', t.dest.strip()):
            live.discard(t.dest.strip())
        elif t.kind == 'call' and t.dest:
            for m in _TOK.finditer(t.dest):
                tu.add('_' + m.group(1))
        live |= tu
        keep = []
        for s in reversed(k.stmts):
            if s.kind == 'assign':
                lhs = (s.lhs or '').strip()
                r = (s.rhs or '').strip()
                plain = bool(re.fullmatch(r'_\d+', lhs))
                trivial = _LOCAL.match(r) or _const_val(r) is not None or re.fullmatch(r'Not\((?:move |copy )?_\d+\)', r)
                if plain and trivial and lhs not in live and lhs != '_0':
                    continue                      # dead flag store
                if plain:
                    live.discard(lhs)
                else:
                    for m in _TOK.finditer(lhs):
                        live.add('_' + m.group(1))
                for m in _TOK.finditer(r):
                    live.add('_' + m.group(1))
            elif s.kind not in _TRIV:
                for m in _TOK.finditer(s.text or ''):
                    live.add('_' + m.group(1))
            keep.append(s)
        if len(keep) != len(k.stmts):
            removed += len(k.stmts) - len(keep)
        k.stmts = list(reversed(keep))
    return removed
