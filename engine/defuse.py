"""Flow-insensitive backward def-use slices over one MIR body.

origins(body, operand) answers "which calls / parameters / constants can this operand's value be
computed from", following assignments, references, projections, casts, aggregates and (optionally)
through the arguments of calls.  Values stored to and re-loaded from the heap are not followed
(soundness caveat (ii) in DESIGN.md §2.3): a miss shows up as a missing origin, which rules treat
as fail-closed where they demand an origin.
"""
import re
from .cfg import locals_in, base_local, is_plain_local
from .mir import callee_key


class DefUse:
    def __init__(self, body):
        self.body = body
        self.defs = {}
        nparams = {p[0] for p in body.params}
        self.params = nparams
        for bid, blk in body.blocks.items():
            if blk.cleanup:
                continue
            for i, s in enumerate(blk.stmts):
                if s.kind == 'assign':
                    bl = base_local(s.lhs)
                    if bl is not None:
                        self.defs.setdefault(bl, []).append(('assign', bid, s))
            t = blk.term
            if t.kind == 'call' and t.dest:
                bl = base_local(t.dest)
                if bl is not None:
                    self.defs.setdefault(bl, []).append(('call', bid, t))
                # &mut arguments may be written by the callee: treat as a def of the pointee
            if t.kind == 'call':
                pass

    def origins(self, operand, through_calls=(), max_nodes=4000, stop_at_calls=True):
        """Returns a set of origin tuples:
             ('call', key, bid)    value produced by that call (search stops there unless the key
                                   matches `through_calls`, in which case its args are followed too)
             ('param', n)
             ('const', text)
             ('op', text)          arithmetic/binary rvalue (operands are followed as well)
        """
        out = set()
        seen = set()
        stack = list(locals_in(operand)) if not operand.strip().startswith('const ') else []
        if operand.strip().startswith('const '):
            out.add(('const', operand.strip()))
        n = 0
        while stack:
            loc = stack.pop()
            if loc in seen:
                continue
            seen.add(loc)
            n += 1
            if n > max_nodes:
                break
            if loc in self.params:
                out.add(('param', loc))
            for kind, bid, obj in self.defs.get(loc, []):
                if kind == 'assign':
                    rhs = obj.rhs.strip()
                    if rhs.startswith('const '):
                        out.add(('const', rhs))
                        cn = [e for e in obj.extra if 'Unevaluated(' in e]
                        for e in cn:
                            m = re.search(r'Unevaluated\((\w+)', e)
                            if m:
                                out.add(('named_const', m.group(1)))
                        continue
                    am = re.match(r"^((?:[\w]+::)+(?:<[^>]*>::)?\w+)(?:\((.*)\)| \{(.*)\})?$", rhs)
                    if am and '::' in am.group(1) and not rhs.startswith(('move ', 'copy ', 'const ')):
                        out.add(('agg', am.group(1), bid, rhs))
                    m = re.match(r'^(\w+)\((.*)\)$', rhs)
                    if m and m.group(1) in ('Add', 'Sub', 'Mul', 'Div', 'Rem', 'CheckedAdd', 'CheckedSub', 'CheckedMul',
                                            'Lt', 'Le', 'Gt', 'Ge', 'Eq', 'Ne', 'BitAnd', 'BitOr', 'BitXor', 'Shl', 'Shr',
                                            'Not', 'Neg', 'Len', 'Offset'):
                        out.add(('op', m.group(1), bid))
                        for part in m.group(2).split(', '):
                            if part.strip().startswith('const '):
                                out.add(('const', part.strip()))
                    for l2 in locals_in(rhs):
                        stack.append(l2)
                else:
                    key = callee_key(obj.callee)
                    out.add(('call', key, bid))
                    follow = any((key == tc) if isinstance(tc, str) else tc(key) for tc in through_calls) or not stop_at_calls
                    if follow:
                        for a in obj.args:
                            for l2 in locals_in(a):
                                stack.append(l2)
        return out

    def from_call(self, operand, pred, through=None, depth_calls=True):
        """True if some origin of operand is a call whose key satisfies pred, following through
        every call's arguments (value-preserving or not): a deliberately generous 'derives from'."""
        org = self.origins(operand, stop_at_calls=not depth_calls)
        for o in org:
            if o[0] == 'call' and ((o[1] == pred) if isinstance(pred, str) else pred(o[1])):
                return True
        return False
