"""Reviewed decision-structure reference ("exit census") for checker functions — engine.exits on the
inlined body, compared with rules/census_table.json.

What it decides: for each listed function, (a) every reviewed rejection is still there, triggered by the
same condition and not placed under additional conditions; (b) every way to succeed carries at least the
reviewed conditions (no new, weaker path to success); (c) for value-returning helpers, the returned
expression and its conditions are the reviewed ones.  Helper calls that resolve inside the crate are inlined
first, so extracting code into a helper (or inlining one) does not change the census; local variables are
described by how they are computed, not by their names.

What it does not decide: that the reviewed conditions are the right ones (that was done by reading them —
see the `note` of each table entry) — a deviation is reported for re-review as a violation of the property
the function is a checker for.
"""
import json, os, re, hashlib
from . import mir
from .exits import Exits
from .inline import inline

TABLE = os.path.join(os.path.dirname(os.path.dirname(os.path.abspath(__file__))), 'rules', 'census_table.json')

# never inlined: constructors of statuses (labels are normalised on them), storage / state accessors (named primitives of the
# description), logging helpers
DEFAULT_OPAQUE = re.compile(r'^(Batch::|Status::|StatusCode::|<StatusCode as |<Status as |Storage::|<Storage as |<StorageWithChainData as |print_|trace_|Peers::get_|Peers::matched_blocks$|PeerState::get_|ProveState::get_|ProveRequest::get_|LastState::|LightClientProtocol::(peers|last_n_blocks|mmr_activated_epoch_number|get_peer_state)$|FilterProtocol::(peers|storage)$)')


def _has_logic(body):
    for blk in body.blocks.values():
        if blk.cleanup:
            continue
        if blk.term.kind == 'switchInt':
            return True
        for s in blk.stmts:
            if s.kind == 'assign' and re.match(r'^(Checked)?(Add|Sub|Mul|Div|Rem|Lt|Le|Gt|Ge|Eq|Ne|Shl|Shr|BitAnd|BitOr)\(', s.rhs.strip()):
                return True
    return False


def inlined(prog, body, extra_opaque=(), max_callee_blocks=220, sinks=None):
    srx = re.compile(sinks) if sinks else None

    def only(key):
        if DEFAULT_OPAQUE.search(key) or key in extra_opaque or (srx is not None and srx.search(key)):
            return False
        c = prog.by_name.get(key)
        if not c or len(c) != 1:
            return False
        nb = getattr(c[0], '_orig_blocks', None) or len([1 for b in c[0].blocks.values() if not b.cleanup])
        return nb <= max_callee_blocks and _has_logic(c[0])
    b = inline(prog, body, max_depth=5, max_blocks=9000, only=only)
    if not os.environ.get('VERIF_NO_THREAD'):
        from .simplify import thread
        thread(b)
    return b


def compute(prog, name, extra_opaque=(), effects=False, sinks=None, closures=False, guarded=False):
    b = inlined(prog, prog.body(name), extra_opaque, sinks=sinks)
    ex = Exits(prog, b, effects=effects, sinks=sinks, closures=closures, guarded=guarded).census()
    if guarded:
        # a handler is held only to the guards of its sinks: its own return values (statuses) are not part of the reference
        ex = [e for e in ex if e['cls'] == 'sink']
    out = []
    for e in ex:
        out.append({'cls': e['cls'], 'label': e['label'], 'trigger': e['trigger'], 'atoms': e['atoms'], 'full': e['full'], 'span': str(e['span'])})
    # order of the effects of one body: `a before b` when every path to b's call has passed a's call (dominance)
    order = set()
    if sinks:
        from .cfg import CFG
        cfg = CFG(b)
        eff = [(e['bid'], re.match(r'^(?:in closure: )?call ([^(]+)\(', e['label'])) for e in ex if e.get('effect') and not e['label'].startswith('in closure: ')]
        eff = [(bid, m.group(1)) for bid, m in eff if m]
        for ba, ka in eff:
            for bb, kb in eff:
                if ba != bb and ka != kb and cfg.dominates(ba, bb):
                    order.add('%s before %s' % (ka, kb))
    compute.last_order = sorted(order)
    # named constants of the crate used by the body (helpers are inlined in `b`) and by its closures: name -> value
    # (or body digest when the initialiser is not a plain integer expression)
    used = {}
    pc = getattr(prog, 'consts', {}) or {}
    for body in [b] + prog.closures_of(prog.body(name)) + [c for g in getattr(b, '_inlined', []) for c in prog.closures_of(prog.body(g))]:
        for blk in body.blocks.values():
            if blk.cleanup:
                continue
            for it in list(blk.stmts) + [blk.term]:
                for e in (it.extra or []):
                    for m in re.finditer(r'Unevaluated\(([A-Z][A-Z0-9_]*),', e):
                        if m.group(1) in pc:
                            c = pc[m.group(1)]
                            used[m.group(1)] = c['value'] if c['value'] is not None else 'digest:' + c['digest']
    compute.last_consts = used
    return out, getattr(b, '_inlined', [])


def short(s, n=110):
    return s if len(s) <= n else s[:n - 12] + '…#' + hashlib.sha1(s.encode()).hexdigest()[:8]


def load_table():
    with open(TABLE) as f:
        return json.load(f)


def compare(reviewed, actual):
    """Yields (ok, kind, descriptor, detail)."""
    for r in reviewed:
        if r['cls'] == 'reject':
            cands = [a for a in actual if a['cls'] == 'reject' and a['label'] == r['label']]
            same = [a for a in cands if set(a['trigger']) == set(r['trigger'])]
            ok = any(set(a['atoms']) <= set(r['full']) for a in same)
            detail = {}
            if not ok:
                if not cands:
                    detail = {'problem': 'no rejecting exit with this result any more'}
                elif not same:
                    detail = {'problem': 'triggering condition changed', 'reviewed_trigger': r['trigger'], 'now': [a['trigger'] for a in cands][:3]}
                else:
                    detail = {'problem': 'rejection placed under additional conditions', 'extra': [sorted(set(a['atoms']) - set(r['full']))[:4] for a in same][:2]}
            yield ok, 'rejection kept', '%s when %s' % (short(r['label'], 70), short(' & '.join(r['trigger']), 150)), detail
        elif r['cls'] == 'exact':
            ok = any(a['label'] == r['label'] and set(a['full']) == set(r['full']) for a in actual)
            detail = {} if ok else {'problem': 'returned expression or its conditions changed', 'reviewed': short(r['label'], 300),
                                    'now': [short(a['label'], 300) for a in actual if a['cls'] == 'exact'][:4]}
            yield ok, 'value kept', '%s when %s' % (short(r['label'], 90), short(' & '.join(r['trigger']), 110)), detail
    rsink = [r for r in reviewed if r['cls'] == 'sink']
    for r in rsink:
        ok = any(a['cls'] == 'sink' and a['label'] == r['label'] for a in actual)
        yield ok, 'effect kept', short(r['label'], 200), ({} if ok else {'problem': 'the reviewed state-changing call (with these arguments) is no longer made', 'now': [short(a['label'], 200) for a in actual if a['cls'] == 'sink'][:6]})
    for a in actual:
        if a['cls'] != 'sink':
            continue
        best, ok, known = None, False, False
        for r in rsink:
            if r['label'] != a['label']:
                continue
            known = True
            miss = sorted(set(r['full']) - set(a['full']))
            if not miss:
                ok = True
                break
            if best is None or len(miss) < len(best):
                best = miss
        detail = {} if ok else ({'problem': 'the state-changing call no longer requires', 'missing_conditions': [short(x, 260) for x in (best or [])[:6]]} if known
                                else {'problem': 'unreviewed state-changing call (new call site or different arguments)'})
        yield ok, 'effect guarded', short(a['label'], 200), detail
    racc = [r for r in reviewed if r['cls'] == 'accept']
    for a in actual:
        if a['cls'] == 'accept':
            best = None
            ok = False
            for r in racc:
                if r['label'] != a['label']:
                    continue
                miss = sorted(set(r['full']) - set(a['full']))
                if not miss:
                    ok = True
                    break
                if best is None or len(miss) < len(best):
                    best = miss
            detail = {} if ok else ({'problem': 'success no longer requires', 'missing_conditions': [short(x, 260) for x in best[:6]]} if best is not None
                                    else {'problem': 'unreviewed successful result', 'label': short(a['label'], 300)})
            yield ok, 'success guarded', short(a['label'], 120), detail
        elif a['cls'] == 'exact':
            ok = any(r['cls'] == 'exact' and r['label'] == a['label'] and set(r['full']) == set(a['full']) for r in reviewed)
            if not ok:
                yield False, 'value reviewed', '%s when %s' % (short(a['label'], 90), short(' & '.join(a['trigger']), 110)), {'problem': 'unreviewed returned value'}


def check(ctx, rule, name):
    table = load_table()
    if name not in table:
        from .rules import Inconclusive
        raise Inconclusive('census table has no entry for %s' % name)
    ent = table[name]
    if not ctx.prog.has(name):
        # a checker is a guard, not an anchor: its disappearance is reported, it does not make the run inconclusive
        ctx.ob(rule, name, 'the reviewed checker function is still present', False, problem='function not found in the analysed crate (removed or renamed)')
        return []
    ctx.fn(ctx.prog.body(name))
    actual, inl = compute(ctx.prog, name, tuple(ent.get('opaque', ())), bool(ent.get('effects')), ent.get('sinks'), bool(ent.get('closures')), bool(ent.get('guarded')))
    for g in set(inl):
        ctx.functions.add(g)
    n = 0
    res = list(compare(ent['exits'], actual))
    strict_fail = [(kind, desc, detail) for ok, kind, desc, detail in res if not ok]
    lostf = []
    byp = []
    if strict_fail:
        # the description differs from the reviewed one.  A deviation is reported only if a reviewed decision, result or effect is
        # no longer made by the function (engine.facts): a re-arrangement (loop <-> adaptor, combinators, flags, helper
        # boundaries) loses nothing; a removed / weakened check, a changed operand or a dropped effect does.
        from . import facts as _facts
        for _d, _l in (ent.get('abbr') or {}).items():
            _facts.ABBR.setdefault(_d, frozenset(_l))
        lostf, nr, na = _facts.lost(ent['exits'], actual)
        byp = _facts.bypassed(ent['exits'], actual)
        ctx.note('%s: %d of %d reviewed entries differ in shape; %d of %d reviewed facts lost' % (name, len(strict_fail), len(res), len(lostf), nr))
    for ok, kind, desc, detail in res:
        n += 1
        if ok or not strict_fail:
            ctx.ob(rule, name, '%s: %s' % (kind, desc), ok, **detail)
        else:
            ctx.ob(rule, name, '%s: %s' % (kind, desc), True, restructured=True)
    if strict_fail:
        from . import facts as _facts
        for f in lostf:
            n += 1
            ctx.ob(rule, name, 'reviewed fact kept: %s' % short(_facts.render(f), 260), False,
                   problem='the function no longer makes this reviewed decision / produces this result / performs this effect',
                   shape_differences=['%s: %s' % (k, short(d, 160)) for k, d, _ in strict_fail[:4]])
        for lab in sorted(set(_facts.new_values(ent['exits'], actual))):
            n += 1
            ctx.ob(rule, name, 'returned value is computed as reviewed: %s' % short(lab, 200), False,
                   problem='a successful / value-returning exit computes its result differently from every reviewed one (alternative operands, other arguments)')
        seen_u = set()
        for lab, f in _facts.untriggered(ent['exits'], actual):
            if (lab, f) in seen_u:
                continue
            seen_u.add((lab, f))
            n += 1
            ctx.ob(rule, name, 'rejection %s is still triggered by the reviewed %s' % (short(lab, 80), short(_facts.render(f), 200)), False,
                   problem='no rejecting exit with this result is triggered by the reviewed decision any more (the test was removed, weakened or now guards something else)')
        durable_fn = bool(ent.get('sinks')) and 'Batch' in (ent.get('sinks') or '')
        # state writes of the small bookkeeping functions (fetch / timeout marking, check-point vectors): `x.timeout = true`
        # skipped under a test the reviewed function never made is a narrowing as well (seeded C11-7)
        write_fn = bool(ent.get('effects')) and not ent.get('sinks')
        if (durable_fn or write_fn) and not ent.get('guarded'):
            seen_n = set()
            for lab, f in _facts.narrowed(ent['exits'], actual, writes=write_fn):
                key = (re.sub(r'\(.*$', '', lab), f)
                if key in seen_n:
                    continue
                seen_n.add(key)
                n += 1
                ctx.ob(rule, name, '%s %s is not made conditional on a new test: %s' % ('durable write' if durable_fn else 'state write', short(re.sub(r'^(?:in closure: )?(?:call|write) ', '', lab), 90), short(_facts.render(f), 200)), False,
                       problem='a reviewed write is now skipped under a condition that the reviewed function never tested')
        seen_b = set()
        for g, f, lab in byp:
            key = (g, f)
            if key in seen_b:
                continue
            seen_b.add(key)
            n += 1
            ctx.ob(rule, name, 'every %s passes the reviewed %s' % (g, short(_facts.render(f), 220)), False,
                   problem='a way to succeed / perform this effect exists that does not pass a decision which every reviewed way passed',
                   bypassing=short(lab, 160))
    for o in ent.get('order', []):
        n += 1
        a, _, bname = o.partition(' before ')
        present = {x for y in compute.last_order for x in y.split(' before ')} | {m.group(1) for e in actual for m in [re.match(r'^(?:in closure: )?call ([^(]+)\(', e['label'])] if m}
        # only meaningful while both effects still exist (their removal is reported by the entries above)
        ok = o in compute.last_order or not (a in present and bname in present)
        ctx.ob(rule, name, 'effect order kept: %s' % o, ok, problem=None if ok else 'the second effect is now reachable without the first having been performed (crash / failure between them leaves the later one alone)')
    for cname, cval in sorted((ent.get('consts') or {}).items()):
        n += 1
        now = compute.last_consts.get(cname)
        if now is None:
            pc = ctx.prog.consts.get(cname)
            now = None if pc is None else (pc['value'] if pc['value'] is not None else 'digest:' + pc['digest'])
        # a constant that is no longer used is reported by the entries above (the expression that used it changed)
        ok = now is None or now == cval
        ctx.ob(rule, name, 'constant kept: %s' % cname, ok, reviewed=cval, now=now)
    ctx.floor(rule, 'census obligations for ' + name, n, max(1, ent.get('floor', 1)))
    return actual
