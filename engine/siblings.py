"""Sibling agreement: normalised signatures of the comparisons a filter closure applies."""
import re
from .defuse import DefUse
from .variants import _chase

TAGS = ('extract_raw_data', 'from_be_bytes', 'from_le_bytes', 'Bytes::len', 'Vec::len', 'capacity', 'lock', 'type_', 'number',
        'starts_with', 'to_opt', 'unpack', 'raw_data', 'outputs_data', 'outputs', 'len')


def operand_tag(body, du, operand):
    """Describe where a comparison operand comes from: the index into a `[r0, r1]` range array, or the
    set of interesting calls it derives from."""
    fin = _chase(body, operand)
    m = re.search(r'\[(\d) of (\d)\]', fin)
    if m:
        return 'range[%s]' % m.group(1)
    if fin.startswith('const '):
        return fin
    org = du.origins(operand, stop_at_calls=False)
    tags = set()
    for o in org:
        if o[0] == 'call':
            k = o[1]
            for t in TAGS:
                if k.endswith('::' + t) or k.endswith(t):
                    tags.add(t)
                    break
        if o[0] == 'agg':
            pass
    # range destructuring may be seen through a copy of the array element
    for o in org:
        if o[0] == 'op':
            pass
    return '+'.join(sorted(tags)) or '?'


def signature(ctx, body):
    """Multiset (sorted list) of (operator, lhs tag, rhs tag) over primitive comparisons and PartialOrd/PartialEq
    calls on non-primitive values inside `body`."""
    P = ctx.prog
    du = DefUse(body)
    sig = []
    for (bid, i, op, a, b, st) in ctx.cmp_stmts(body):
        if st.span is not None and not st.span.file.startswith('src/'):
            continue
        sig.append((op, operand_tag(body, du, a), operand_tag(body, du, b)))
    for bid, k, t in P.call_keys(body):
        m = re.match(r'^<(\w+) as Partial(Ord|Eq)>::(lt|le|gt|ge|eq|ne)$', k)
        if m and len(t.args) == 2 and (t.span is None or t.span.file.startswith('src/')):
            sig.append(('%s.%s' % (m.group(1), m.group(3)), operand_tag(body, du, t.args[0]), operand_tag(body, du, t.args[1])))
        if k.endswith('slice::starts_with') and (t.span is None or t.span.file.startswith('src/')):
            sig.append(('starts_with', operand_tag(body, du, t.args[0]), 'prefix'))
    return sorted(sig)
