"""MIR-level inlining of crate-local callees into a copy of a body.

Purpose: a normal form for the exit census that is insensitive to extracting code into (or inlining
it from) helper functions.  A call `d = g(a1, .., an) -> bbR` whose callee resolves to exactly one
body of the analysed crate is replaced by
      p1' = a1; ..; pn' = an; goto entry'
with g's normal-path blocks copied under fresh local / block numbers, and every `return` of the copy
replaced by `d = move _0'; goto bbR`.  Cleanup blocks and unwind edges are not copied (the census works
on the normal-path CFG).  Recursion is cut by an explicit stack; depth and size are bounded.
"""
import re
import copy
from . import mir

_LOC = re.compile(r'\b_(\d+)\b')


_RET = [None]     # while copying a callee: the caller's destination local that stands for the callee's `_0`


def _ren_locals(text, off):
    if text is None:
        return None
    ret = _RET[0]
    if ret is not None and off:
        return _LOC.sub(lambda m: ret if m.group(1) == '0' else '_%d' % (int(m.group(1)) + off), text)
    return _LOC.sub(lambda m: '_%d' % (int(m.group(1)) + off), text)


def _copy_stmt(s, off):
    n = mir.Stmt(s.kind, _ren_locals(s.lhs, off), _ren_locals(s.rhs, off), _ren_locals(s.text, off), s.span)
    n.extra = list(s.extra)
    return n


def _copy_term(t, off, boff, bmap):
    n = mir.Term(t.kind, _ren_locals(t.text, off), t.span)
    n.targets = [bmap(x) for x in t.targets]
    n.unwind = None
    n.callee = _ren_locals(t.callee, off) if t.callee and re.match(r'^(move |copy )?_\d+', t.callee.strip()) else t.callee
    n.args = [_ren_locals(a, off) for a in t.args] if t.args is not None else None
    n.dest = _ren_locals(t.dest, off)
    n.discr = _ren_locals(t.discr, off)
    n.cond = _ren_locals(t.cond, off)
    n.expected = t.expected
    n.msg = t.msg
    n.operands = [_ren_locals(o, off) for o in t.operands] if t.operands is not None else None
    n.place = _ren_locals(t.place, off)
    n.extra = list(t.extra)
    n.cases = [(v, bmap(b)) for v, b in t.cases] if t.cases is not None else None
    return n


def clone_body(body):
    nb = mir.Body(body.raw_name, body.sig_args, body.ret)
    nb.name = body.name
    nb.params = list(body.params)
    nb.locals = dict(body.locals)
    nb.debug = dict(body.debug)
    nb.debug_all = list(body.debug_all)
    nb.file, nb.line, nb.promoted = body.file, body.line, body.promoted
    for bid, blk in body.blocks.items():
        if blk.cleanup:
            continue
        b2 = mir.Block(bid, False)
        b2.stmts = [_copy_stmt(s, 0) for s in blk.stmts]
        b2.term = _copy_term(blk.term, 0, 0, lambda x: x)
        nb.blocks[bid] = b2
    # drop edges into cleanup blocks
    for blk in nb.blocks.values():
        blk.term.targets = [t for t in blk.term.targets if t in nb.blocks]
    return nb


def inline(prog, body, max_depth=4, max_blocks=1500, opaque=(), only=None, log=None, carry_debug=False):
    """Returns a new Body with crate-local calls inlined.  `opaque`: callee keys never inlined.
    `only`: optional predicate on callee key."""
    root = clone_body(body)
    depth_of = {bid: 0 for bid in root.blocks}
    stack_of = {bid: (body.name,) for bid in root.blocks}
    next_local = max([0] + [int(x) for x in root.locals] + [p[0] for p in root.params]) + 1
    next_block = max(root.blocks) + 1
    work = sorted(root.blocks)
    inlined = []
    while work:
        bid = work.pop(0)
        blk = root.blocks[bid]
        t = blk.term
        if t.kind != 'call' or not t.dest or not t.targets:
            continue
        key = mir.callee_key(t.callee)
        if key in opaque or (only is not None and not only(key)):
            continue
        cands = prog.by_name.get(key)
        if not cands or len(cands) != 1:
            continue
        g = cands[0]
        if g.name in stack_of[bid] or depth_of[bid] >= max_depth or '{closure' in g.name:
            continue
        gblocks = {b: k for b, k in g.blocks.items() if not k.cleanup}
        if len(root.blocks) + len(gblocks) > max_blocks:
            if log is not None:
                log.append('size bound reached, not inlining %s' % g.name)
            continue
        if len(g.params) != len(t.args or []):
            continue
        off = next_local
        glocals = [int(x) for x in g.locals] + [p[0] for p in g.params] + [0]
        next_local += max(glocals) + 1
        boff = next_block
        next_block += max(gblocks) + 1

        def bmap(x, boff=boff, gblocks=gblocks):
            return x + boff if x in gblocks else -1
        ret_target = t.targets[0]
        dest = t.dest
        # a plain destination local stands for the callee's return place: `_0' = X` becomes `dest = X` (no merged copy, so
        # that every return of the helper stays a definition of its own — also when the call was a tail call into `_0`)
        direct = bool(re.fullmatch(r'_\d+', dest.strip())) and not any(re.search(r'(?<![\d_])%s(?!\d)' % re.escape(dest.strip()), a) for a in (t.args or []))
        _RET[0] = dest.strip() if direct else None
        for gb, gk in gblocks.items():
            nbk = mir.Block(gb + boff, False)
            nbk.stmts = [_copy_stmt(s, off) for s in gk.stmts]
            if gk.term.kind == 'return':
                if not direct:
                    st = mir.Stmt('assign', dest, 'move _%d' % off, '%s = move _%d' % (dest, off), gk.term.span)
                    nbk.stmts.append(st)
                nt = mir.Term('goto', 'goto -> bb%d' % ret_target, gk.term.span)
                nt.targets = [ret_target]
                nbk.term = nt
            else:
                nbk.term = _copy_term(gk.term, off, boff, bmap)
                nbk.term.targets = [x for x in nbk.term.targets if x != -1]
                if nbk.term.cases is not None:
                    nbk.term.cases = [(v, b) for v, b in nbk.term.cases if b != -1]
            root.blocks[nbk.id] = nbk
            depth_of[nbk.id] = depth_of[bid] + 1
            stack_of[nbk.id] = stack_of[bid] + (g.name,)
            work.append(nbk.id)
        _RET[0] = None
        for loc, ty in g.locals.items():
            root.locals[int(loc) + off if not isinstance(loc, str) else str(int(loc) + off)] = ty
        # parameter passing
        for (ploc, pty), a in zip(g.params, t.args):
            lhs = '_%d' % (ploc + off)
            blk.stmts.append(mir.Stmt('assign', lhs, a.strip(), '%s = %s' % (lhs, a.strip()), t.span))
            root.locals[ploc + off] = pty
        nt = mir.Term('goto', 'goto -> bb%d' % (boff + 0), t.span)
        nt.targets = [boff + 0]
        blk.term = nt
        inlined.append(g.name)
        if carry_debug:
            # the callee's source names stay attached to its (renumbered) locals
            pnums = {'_%d' % p[0] for p in g.params}
            for nm, pl in g.debug_all:
                if pl.strip() in pnums:
                    continue          # .. except its parameters: they are the caller's argument expressions and are rendered as such
                pl2 = _ren_locals(pl, off)
                root.debug_all.append((nm, pl2))
                root.debug.setdefault(nm, pl2)
    root._inlined = inlined
    return root
