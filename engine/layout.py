"""P7 — byte-layout facts extracted from MIR: the numbers a writer uses and the numbers readers use.

facts(body) yields tuples:
  ('range', start, end) ('rangefrom', start) ('rangeto', end) ('rangeinc', start, end)
      start/end: int | 'len-K' | 'len' | 'x+K' | '?'
  ('chunks', n) ('rem', n) ('div', n) ('mul', n)
  ('bytes', 'to'|'from', 'be'|'le', width)     integer <-> byte-array conversions
  ('array', n)                                 `[const 0_u8; n]` scratch arrays
"""
import re
from .variants import _single_def

INT_RE = re.compile(r'^const (-?\d+)_(?:usize|u64|u32|u16|u8|i32|i64|isize)$')
WIDTH = {'u8': 1, 'u16': 2, 'u32': 4, 'u64': 8, 'u128': 16, 'usize': 8, 'U256': 32, 'i32': 4, 'i64': 8}


def _resolve(body, operand, depth=6):
    """int constant, 'len-K', 'len', 'x+K' or '?' for a usize operand."""
    op = operand.strip()
    m = INT_RE.match(op)
    if m:
        return int(m.group(1))
    m = re.match(r'^(?:move |copy )?_(\d+)$', op)
    if not m or depth == 0:
        return '?'
    loc = int(m.group(1))
    d = _single_def(body, loc)
    if d is None:
        # maybe defined by a call (len())
        for blk in body.blocks.values():
            t = blk.term
            if t.kind == 'call' and t.dest and t.dest.strip() == '_%d' % loc:
                if re.search(r'::len$', t.callee.split('(')[0]) or t.callee.endswith('::len'):
                    return 'len'
        return '?'
    d = d.strip()
    m = INT_RE.match(d)
    if m:
        return int(m.group(1))
    if d.startswith('Len(') or d.startswith('PtrMetadata('):
        return 'len'
    m = re.match(r'^(?:move |copy )?\(_(\d+)\.0: usize\)$', d)
    if m:
        # checked arithmetic result tuple
        cd = _single_def(body, int(m.group(1)))
        if cd:
            d = cd.strip()
    m = re.match(r'^(Checked)?(Sub|Add)\((.*), (.*)\)$', d)
    if m:
        a = _resolve(body, m.group(3), depth - 1)
        b = _resolve(body, m.group(4), depth - 1)
        if m.group(2) == 'Sub' and a == 'len' and isinstance(b, int):
            return 'len-%d' % b
        if m.group(2) == 'Sub' and isinstance(a, str) and a.startswith('len-') and isinstance(b, int):
            return 'len-%d' % (int(a[4:]) + b)
        if m.group(2) == 'Add' and isinstance(b, int) and not isinstance(a, int):
            if isinstance(a, str) and a.startswith('x+'):
                return 'x+%d' % (int(a[2:]) + b)
            return 'x+%d' % b
        if isinstance(a, int) and isinstance(b, int):
            return a - b if m.group(2) == 'Sub' else a + b
        return '?'
    m = re.match(r'^(?:move |copy )?_(\d+)$', d)
    if m:
        return _resolve(body, d, depth - 1)
    return '?'


def facts(body):
    out = []
    for bid, blk in body.blocks.items():
        if blk.cleanup:
            continue
        for s in blk.stmts:
            if s.kind != 'assign':
                continue
            r = s.rhs.strip()
            m = re.match(r'^(?:std::ops::)?Range::<usize> \{ start: (.*), end: (.*) \}$', r)
            if m:
                out.append(('range', _resolve(body, m.group(1)), _resolve(body, m.group(2)), s.span))
                continue
            m = re.match(r'^(?:std::ops::)?RangeFrom::<usize> \{ start: (.*) \}$', r)
            if m:
                out.append(('rangefrom', _resolve(body, m.group(1)), s.span))
                continue
            m = re.match(r'^(?:std::ops::)?RangeTo::<usize> \{ end: (.*) \}$', r)
            if m:
                out.append(('rangeto', _resolve(body, m.group(1)), s.span))
                continue
            m = re.match(r'^\[const 0_u8; (\d+)\]$', r)
            if m:
                out.append(('array', int(m.group(1)), s.span))
                continue
            m = re.match(r'^(Rem|Div|Mul)\((.*), (const \d+_usize)\)$', r)
            if m:
                out.append((m.group(1).lower(), int(INT_RE.match(m.group(3)).group(1)), s.span))
        t = blk.term
        if t.kind == 'call':
            c = t.callee
            m = re.search(r'RangeInclusive::<usize>::new$', c)
            if m:
                out.append(('rangeinc', _resolve(body, t.args[0]), _resolve(body, t.args[1]), t.span))
            if c.endswith('::chunks') or '::chunks::' in c or c.endswith('chunks_exact'):
                out.append(('chunks', _resolve(body, t.args[1]) if len(t.args) > 1 else '?', t.span))
            m = re.search(r'(?:<impl (\w+)>|\b(u8|u16|u32|u64|u128|usize|U256))::(to|from)_(be|le)_bytes$', c)
            if m:
                ty = m.group(1) or m.group(2)
                out.append(('bytes', m.group(3), m.group(4), WIDTH.get(ty, '?'), t.span))
    return out


def fact_set(body, kinds=None):
    fs = set()
    for f in facts(body):
        if kinds and f[0] not in kinds:
            continue
        fs.add(f[:-1])
    return fs
