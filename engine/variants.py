"""P5 — variant tables of enum-dispatch functions, extracted from MIR.

For a function whose first step is `switchInt(discriminant(self))`, compute per input variant the
set of possible results (what is assigned to the return place inside that arm), the output
variant constructed, and for each field of the output where its value comes from.
"""
import os
import re
from .cfg import CFG, locals_in


def enum_variants(repo, file, enum_name):
    """[(variant name, [field names])] in declaration order, parsed from the source file."""
    src = open(os.path.join(repo, file), errors='replace').read()
    m = re.search(r'\benum\s+%s\b[^{]*\{' % re.escape(enum_name), src)
    if not m:
        return None
    i = m.end()
    depth = 1
    body_start = i
    while i < len(src) and depth:
        c = src[i]
        if c == '{':
            depth += 1
        elif c == '}':
            depth -= 1
        i += 1
    body = src[body_start:i - 1]
    # strip comments
    body = re.sub(r'//[^\n]*', '', body)
    body = re.sub(r'/\*.*?\*/', '', body, flags=re.S)
    out = []
    d = 0
    cur = ''
    for c in body + ',':
        if c in '{(<[':
            d += 1
        elif c in '})>]':
            d -= 1
        if c == ',' and d == 0:
            item = cur.strip()
            cur = ''
            if not item:
                continue
            item = re.sub(r'#\[[^\]]*\]\s*', '', item)
            vm = re.match(r'(\w+)\s*(\{(.*)\}|\((.*)\))?', item, flags=re.S)
            if not vm:
                continue
            fields = []
            if vm.group(3) is not None:
                for f in re.split(r',', vm.group(3)):
                    fm = re.match(r'\s*(?:pub(?:\([^)]*\))?\s+)?(\w+)\s*:', f)
                    if fm:
                        fields.append(fm.group(1))
            elif vm.group(4) is not None:
                fields = [str(k) for k, _ in enumerate([x for x in vm.group(4).split(',') if x.strip()])]
            out.append((vm.group(1), fields))
        else:
            cur += c
    return out


class Outcome:
    def __init__(self, kind, variant=None, fields=None, at=None):
        self.kind = kind          # Ok Err Some None true false value
        self.variant = variant    # output enum variant name, '<self>' if the input is returned, None
        self.fields = fields or {}
        self.at = at

    def key(self):
        return (self.kind, self.variant)

    def __repr__(self):
        return '%s(%s)' % (self.kind, self.variant) if self.variant else self.kind


AGG_RE = re.compile(r'^(?:[\w:]+::)?(\w+)::(\w+)(?: \{(.*)\}|\((.*)\))?$')


def _single_def(body, loc):
    """The unique assignment rhs of a local in non-cleanup blocks, or None."""
    found = None
    for blk in body.blocks.values():
        if blk.cleanup:
            continue
        for s in blk.stmts:
            if s.kind == 'assign' and s.lhs.strip() == '_%d' % loc:
                if found is not None:
                    return None
                found = s.rhs.strip()
    return found


def _chase(body, operand, depth=8):
    """Follow move/copy chains: returns the final rvalue text."""
    txt = operand.strip()
    for _ in range(depth):
        m = re.match(r'^(?:move |copy )?_(\d+)$', txt)
        if not m:
            break
        d = _single_def(body, int(m.group(1)))
        if d is None:
            break
        txt = d
    return txt


def dispatch_table(body, enum_name, variants, self_local=1):
    """Returns (table, dispatch_block) where table: variant name -> list[Outcome]."""
    cfg = CFG(body)
    # find the dispatch: first switchInt (in dominance order) whose discr is discriminant(self)
    disp = None
    for bid in sorted(cfg.reachable()):
        blk = body.blocks[bid]
        if blk.term.kind != 'switchInt':
            continue
        d = blk.term.discr.replace('move ', '').replace('copy ', '').strip()
        for s in blk.stmts:
            if s.kind == 'assign' and s.lhs.strip() == d and re.match(r'^discriminant\(\(?\*?_%d\)?\)$' % self_local, s.rhs.strip()):
                disp = bid
        if disp is not None:
            break
    if disp is None:
        return None, None
    t = body.blocks[disp].term
    names = [v[0] for v in variants]
    listed = {}
    other = None
    for c, tgt in t.cases:
        if c == 'otherwise':
            other = tgt
        else:
            listed[c] = tgt
    table = {}
    for idx, vname in enumerate(names):
        tgt = listed.get(idx, other)
        if tgt is None:
            table[vname] = []
            continue
        table[vname] = _arm_outcomes(body, cfg, tgt, disp, enum_name, vname, self_local)
    return table, disp


def _arm_outcomes(body, cfg, start, disp, enum_name, in_variant, self_local):
    blocks = cfg.reachable_from([start], removed_nodes={disp})
    outs = []
    if body.blocks[start].term.kind == 'unreachable' and not body.blocks[start].stmts:
        return outs
    for bid in sorted(blocks):
        blk = body.blocks[bid]
        for s in blk.stmts:
            if s.kind != 'assign' or s.lhs.strip() != '_0':
                continue
            outs.append(_classify(body, s, enum_name, in_variant, self_local))
        t = blk.term
        if t.kind == 'call' and t.dest and t.dest.strip() == '_0':
            outs.append(Outcome('value', None, at=t.span))
    return outs


def _classify(body, s, enum_name, in_variant, self_local):
    rhs = s.rhs.strip()
    m = re.match(r'^(?:std::result::)?Result::<.*?>::(Ok|Err)\((.*)\)$', rhs)
    kind = None
    inner = None
    if m:
        kind, inner = m.group(1), m.group(2)
    else:
        m = re.match(r'^(?:std::option::)?Option::<.*?>::Some\((.*)\)$', rhs)
        if m:
            kind, inner = 'Some', m.group(1)
        elif re.match(r'^(?:std::option::)?Option::<.*?>::None$', rhs):
            return Outcome('None', at=s.span)
        elif rhs == 'const true':
            return Outcome('true', at=s.span)
        elif rhs == 'const false':
            return Outcome('false', at=s.span)
        else:
            # plain value: maybe the enum itself (functions returning Self)
            kind, inner = 'value', rhs
    if kind == 'Err':
        return Outcome('Err', at=s.span)
    final = _chase(body, inner)
    if re.match(r'^(?:move |copy )?_%d$' % self_local, final):
        return Outcome(kind, '<self>', at=s.span)
    am = AGG_RE.match(final)
    if am and am.group(1) == enum_name:
        vname = am.group(2)
        fields = {}
        if am.group(3):
            for part in _split_fields(am.group(3)):
                fn, _, val = part.partition(': ')
                fields[fn.strip()] = _field_source(body, val.strip(), self_local)
        return Outcome(kind, vname, fields, at=s.span)
    return Outcome(kind, None, at=s.span)


def _split_fields(txt):
    out, d, cur = [], 0, ''
    for c in txt:
        if c in '({[<':
            d += 1
        elif c in ')}]>':
            d -= 1
        if c == ',' and d == 0:
            out.append(cur.strip())
            cur = ''
        else:
            cur += c
    if cur.strip():
        out.append(cur.strip())
    return out


def _field_source(body, operand, self_local):
    final = _chase(body, operand)
    m = re.match(r'^(?:move |copy )?\(\(_%d as (\w+)\)\.(\d+): ' % self_local, final)
    if m:
        return 'self.%s.%s' % (m.group(1), m.group(2))
    m = re.match(r'^(?:move |copy )?_(\d+)$', final)
    if m and int(m.group(1)) in {p[0] for p in body.params}:
        return 'param _%s' % m.group(1)
    return 'other'
