"""Thorough tier: checker self-validation.  Every mutant patch of the property (selftest/mutants/<ID>-*.patch and the
seeded regressions seeded/<ID>-*/patch.diff) is applied to a scratch copy of /repo's working tree (outside /repo and /verif), MIR is
re-emitted with the same wrapper, and the property's own rules must report a VIOLATION.  A mutant that no longer applies is
reported as skipped; an undetected mutant makes the run exit 2 (SELFTEST-FAILED: a checker defect, not a property violation)."""
import glob
import hashlib
import json
import os
import shutil
import subprocess
import tempfile

from .program import VERIF, REPO, CACHE


def mutants_for(pid):
    out = []
    for p in sorted(glob.glob(os.path.join(VERIF, 'selftest', 'mutants', pid + '-*.patch'))):
        out.append((os.path.basename(p)[:-6], p))
    for d in sorted(glob.glob(os.path.join(VERIF, 'seeded', pid + '-*'))):
        p = os.path.join(d, 'patch.diff')
        if os.path.exists(p):
            out.append(('seeded:' + os.path.basename(d), p))
    return out


def run_one(pid, name, patch):
    d = tempfile.mkdtemp(prefix='lcv-self-')
    tag = hashlib.sha256(os.path.abspath(d).encode()).hexdigest()[:8]
    try:
        for f in ('Cargo.toml', 'Cargo.lock', 'rust-toolchain', 'build.rs', 'README.md'):
            p = os.path.join(REPO, f)
            if os.path.exists(p):
                shutil.copy2(p, d)
        shutil.copytree(os.path.join(REPO, 'src'), os.path.join(d, 'src'))
        r = subprocess.run(['patch', '-p1', '-s', '-f', '-d', d, '-i', patch], stdout=subprocess.PIPE, stderr=subprocess.STDOUT, text=True)
        if r.returncode != 0:
            return {'mutant': name, 'status': 'skipped', 'why': 'patch no longer applies'}
        env = dict(os.environ, VERIF_REPO=d, VERIF_EVIDENCE_DIR=os.path.join(d, '_ev'), VERIF_REPORT_DIR=os.path.join(d, '_rep'), VERIF_TIER='quick')
        p = subprocess.run([os.path.join(VERIF, 'lcv'), 'check', pid, '--tier', 'quick'], env=env, stdout=subprocess.PIPE, stderr=subprocess.STDOUT, text=True)
        keys = [l.strip()[10:].split('  at ')[0] for l in p.stdout.split('\n') if l.strip().startswith('violated:')]
        if p.returncode == 1 and keys:
            return {'mutant': name, 'status': 'detected', 'violations': keys[:4]}
        if 'MIR emission failed' in p.stdout:
            return {'mutant': name, 'status': 'skipped', 'why': 'mutant does not compile on this tree'}
        return {'mutant': name, 'status': 'MISSED', 'exit': p.returncode, 'tail': p.stdout[-400:]}
    finally:
        shutil.rmtree(d, ignore_errors=True)
        for f in glob.glob(os.path.join(CACHE, '*%s*' % tag)):
            try:
                os.unlink(f)
            except OSError:
                pass


def benign_for(pid):
    return [('benign:' + os.path.basename(p)[:-6], p) for p in sorted(glob.glob(os.path.join(VERIF, 'selftest', 'benign', '*.patch')))]


def run_benign(pid, name, patch):
    """A behaviour-preserving edit (rename, logging, reordering of independent checks, helper extraction, an added rejection)
    must leave the check silent."""
    r = run_one(pid, name, patch)
    if r['status'] == 'MISSED' and r.get('exit') == 0:
        return {'mutant': name, 'status': 'silent'}
    if r['status'] == 'detected':
        return {'mutant': name, 'status': 'FALSE-ALARM', 'violations': r.get('violations')}
    if r['status'] == 'MISSED':
        return {'mutant': name, 'status': 'FALSE-ALARM', 'exit': r.get('exit'), 'tail': r.get('tail')}
    return r


def known_missed():
    """Mutants / seeds that the current rules do not report under the property named in their file name (DESIGN §12: they were
    only seen by the strict description comparison that the fact criterion replaced).  They are still run; `known-missed` is
    reported, never `detected`, and if one IS detected again the entry is stale (reported as detected)."""
    p = os.path.join(VERIF, 'selftest', 'known_missed.json')
    if not os.path.exists(p):
        return {}
    with open(p) as f:
        return json.load(f)


def run(pid):
    res = []
    km = known_missed()
    for name, patch in mutants_for(pid):
        r = run_one(pid, name, patch)
        if r['status'] == 'MISSED' and name in km:
            r = {'mutant': name, 'status': 'known-missed', 'why': km[name]}
        res.append(r)
    for name, patch in benign_for(pid):
        res.append(run_benign(pid, name, patch))
    return res
