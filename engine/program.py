"""Facts: MIR emission from /repo's working tree, parsing, caching, indexes and call graph."""
import os
import sys
import re
import time
import glob
import pickle
import hashlib
import subprocess
import fcntl

from . import mir
from .cfg import CFG

VERIF = os.path.dirname(os.path.dirname(os.path.abspath(__file__)))
REPO = os.environ.get('VERIF_REPO', '/repo')
CACHE = os.environ.get('VERIF_CACHE', os.path.join(VERIF, '.cache'))
TARGET = os.path.join(CACHE, 'tcheck')
GUARD_CFG = 'ckb_light_client_verif'

MIN_BODIES = 900
HANDLERS = ['LightClientProtocol', 'FilterProtocol', 'SyncProtocol', 'RelayProtocol']


class FactsError(Exception):
    """Fail-closed condition (exit 2): build failure, missing anchor, stale facts."""


def tree_hash(repo):
    h = hashlib.sha256()
    files = []
    for root, dirs, fs in os.walk(os.path.join(repo, 'src')):
        dirs.sort()
        for f in sorted(fs):
            files.append(os.path.join(root, f))
    for f in ('Cargo.toml', 'Cargo.lock', 'rust-toolchain', 'build.rs'):
        p = os.path.join(repo, f)
        if os.path.exists(p):
            files.append(p)
    for p in files:
        h.update(os.path.relpath(p, repo).encode())
        h.update(b'\0')
        with open(p, 'rb') as fh:
            h.update(fh.read())
        h.update(b'\0')
    # the parser/wrapper version is part of the key
    for p in (os.path.join(VERIF, 'engine', 'mir.py'), os.path.join(VERIF, 'tools', 'mirwrap_check.sh')):
        with open(p, 'rb') as fh:
            h.update(fh.read())
    return h.hexdigest()[:24]


def emit_mir(repo, out, target=TARGET, log=None):
    """Run `cargo check` on the repo's bin target with the MIR-dumping wrapper."""
    env = dict(os.environ)
    env.update({
        'CARGO_NET_OFFLINE': 'true',
        'RUSTC_WORKSPACE_WRAPPER': os.path.join(VERIF, 'tools', 'mirwrap_check.sh'),
        'CARGO_TARGET_DIR': target,
        'VERIF_MIR_OUT': out,
    })
    env.pop('RUSTC_WRAPPER', None)
    if os.path.exists(out):
        os.unlink(out)
    # make sure cargo re-runs the wrapper even if it believes the crate is fresh
    for fp in glob.glob(os.path.join(target, 'debug', '.fingerprint', 'ckb-light-client-*')):
        subprocess.call(['rm', '-rf', fp])
    cmd = ['cargo', 'check', '--offline', '--bin', 'ckb-light-client']
    p = subprocess.run(cmd, cwd=repo, env=env, stdout=subprocess.PIPE, stderr=subprocess.STDOUT, text=True)
    if (p.returncode != 0 or not os.path.exists(out)) and 'error[E' not in p.stdout and 'error: ' not in p.stdout.replace('error: could not compile', ''):
        # not a compile error of the crate (lock contention, interrupted dependency check): one retry
        time.sleep(2)
        p = subprocess.run(cmd, cwd=repo, env=env, stdout=subprocess.PIPE, stderr=subprocess.STDOUT, text=True)
    if log:
        with open(log, 'w') as f:
            f.write(p.stdout)
    if p.returncode != 0 or not os.path.exists(out):
        tail = '\n'.join(p.stdout.strip().split('\n')[-40:])
        raise FactsError('MIR emission failed (cargo check exit %d)\n%s' % (p.returncode, tail))


class Program:
    def __init__(self, bodies, repo, key):
        self.bodies = bodies
        self.repo = repo
        self.key = key
        self.by_name = {}
        for b in bodies:
            self.by_name.setdefault(b.name, []).append(b)
        self._cfg = {}
        self._mentions = None
        self._callers = None

    # ---- lookup ------------------------------------------------------------------------
    def body(self, name):
        """Unique body with this canonical name; fail closed if absent or ambiguous."""
        bs = self.by_name.get(name)
        if not bs:
            raise FactsError('ANCHOR-MISSING: no function %r in the analysed crate' % name)
        if len(bs) > 1:
            raise FactsError('ANCHOR-AMBIGUOUS: %d functions named %r' % (len(bs), name))
        return bs[0]

    def has(self, name):
        return name in self.by_name

    def find(self, regex):
        r = re.compile(regex)
        return [b for b in self.bodies if r.search(b.name)]

    def closures_of(self, body, transitive=True):
        pre = body.name + '::{closure#'
        out = [b for b in self.bodies if b.name.startswith(pre) and b.file == body.file]
        if not transitive:
            out = [b for b in out if b.name.count('{closure#') == body.name.count('{closure#') + 1]
        return out

    def parent_fn(self, body):
        """Top-level function a closure belongs to (itself for non-closures)."""
        n = body.name
        k = n.find('::{closure#')
        if k == -1:
            return body
        base = n[:k]
        for b in self.by_name.get(base, []):
            if b.file == body.file:
                return b
        return body

    def cfg(self, body):
        c = self._cfg.get(id(body))
        if c is None:
            c = self._cfg[id(body)] = CFG(body)
        return c

    # ---- call graph --------------------------------------------------------------------
    def call_keys(self, body):
        """callee keys of call terminators in non-cleanup blocks: [(block id, key, term)]"""
        out = []
        for bid, blk in body.blocks.items():
            if blk.cleanup:
                continue
            t = blk.term
            if t.kind == 'call':
                out.append((bid, mir.callee_key(t.callee), t))
        return out

    def mentions(self):
        """body name -> set of crate-local function names mentioned anywhere in the body (call
        callees AND function items passed as values), closures folded into their parents.
        Sound over-approximation of 'may call'."""
        if self._mentions is not None:
            return self._mentions
        local_names = set(self.by_name)
        cand_re = re.compile(r"<[^<>]*? as [^<>]*?>(?:::\w+)+|\w+(?:::\w+)+|\b[a-z_]\w*\b")
        res = {}
        for b in self.bodies:
            s = set()
            chunks = []
            for blk in b.blocks.values():
                if blk.cleanup:
                    continue
                t = blk.term
                if t.kind == 'call':
                    k = mir.callee_key(t.callee)
                    if k in local_names:
                        s.add(k)
                    for a in t.args:
                        if '::' in a or re.match(r'^[a-z_]\w*$', a.strip()):
                            chunks.append(a)
                for st in blk.stmts:
                    if st.kind == 'assign' and ('::' in st.rhs or ' as fn' in st.rhs) and not st.rhs.startswith('const "'):
                        chunks.append(st.rhs)
            for ch in chunks:
                ch = re.sub(r'const "(?:[^"\\]|\\.)*"', '', ch)
                ch = mir.strip_generics(ch)
                for m in cand_re.finditer(ch):
                    c = m.group(0)
                    k2 = mir.callee_key(c)
                    if k2 in local_names:
                        s.add(k2)
            res[b.name] = res.get(b.name, set()) | s
        # fold closures into parents
        folded = {}
        for b in self.bodies:
            p = self.parent_fn(b)
            folded.setdefault(p.name, set()).update(res.get(b.name, set()))
        self._mentions = folded
        return folded

    def callers_of(self, name):
        """Top-level functions whose bodies (or closures) mention `name`."""
        m = self.mentions()
        return sorted(k for k, v in m.items() if name in v)

    def transitive_callees(self, name, stop=()):
        m = self.mentions()
        seen = set()
        stack = [name]
        while stack:
            n = stack.pop()
            for c in m.get(n, ()):
                if c in seen or c in stop:
                    continue
                seen.add(c)
                stack.append(c)
        return seen

    def transitive_callers(self, name):
        m = self.mentions()
        rev = {}
        for k, v in m.items():
            for c in v:
                rev.setdefault(c, set()).add(k)
        seen = set()
        stack = [name]
        while stack:
            n = stack.pop()
            for c in rev.get(n, ()):
                if c not in seen:
                    seen.add(c)
                    stack.append(c)
        return seen

    def const_uses(self, body, name):
        """[(block id, stmt-or-term)] whose verbose constant comment names `name`
        (`// + literal: Const { .. Unevaluated(NAME, ..) }`)."""
        out = []
        needle = 'Unevaluated(%s,' % name
        for bid, blk in body.blocks.items():
            if blk.cleanup:
                continue
            for st in blk.stmts:
                if any(needle in e for e in st.extra):
                    out.append((bid, st))
            if any(needle in e for e in blk.term.extra):
                out.append((bid, blk.term))
        return out

    # ---- sites -------------------------------------------------------------------------
    def call_sites(self, body, pred):
        """[(block id, term)] of calls in `body` (normal blocks) whose callee key satisfies pred
        (a string = exact key, or a callable on (key, term))."""
        out = []
        for bid, k, t in self.call_keys(body):
            if (k == pred) if isinstance(pred, str) else pred(k, t):
                out.append((bid, t))
        return sorted(out, key=lambda x: x[0])

    def closure_sites(self, body, pred):
        """Blocks of `body` that construct a closure whose (transitive) body contains a call
        matching pred: [(block id, closure body)]"""
        out = []
        for c in self.closures_of(body, transitive=False):
            hit = bool(self.call_sites(c, pred)) or bool(self.closure_sites(c, pred))
            if not hit:
                continue
            # closure aggregate statement: '[closure@FILE:L:C: L:C]' — match by span text
            m = re.search(r'\[closure@([^\]]+)\]', c.sig_args)
            tag = m.group(1) if m else None
            for bid, blk in body.blocks.items():
                if blk.cleanup:
                    continue
                for st in blk.stmts:
                    if st.kind == 'assign' and tag and ('closure@' + tag) in st.rhs:
                        out.append((bid, c))
        return out


def load(repo=None, rebuild=False, quiet=False):
    repo = repo or REPO
    os.makedirs(CACHE, exist_ok=True)
    lock = open(os.path.join(CACHE, 'facts.lock'), 'w')
    fcntl.flock(lock, fcntl.LOCK_EX)
    try:
        key = tree_hash(repo)
        tag = hashlib.sha256(os.path.abspath(repo).encode()).hexdigest()[:8]
        pk = os.path.join(CACHE, 'facts-%s-%s.v2.pickle' % (tag, key))
        if os.path.exists(pk) and not rebuild:
            with open(pk, 'rb') as f:
                bodies = pickle.load(f)
            built = False
        else:
            t0 = time.time()
            out = os.path.join(CACHE, 'mir-%s.mir' % tag)
            emit_mir(repo, out, log=os.path.join(CACHE, 'build-%s.log' % tag))
            bodies = mir.parse_file(out)
            mir.canonicalise(bodies, repo)
            mir.resolve_const_operands(bodies, repo)
            for old in glob.glob(os.path.join(CACHE, 'facts-%s-*.pickle' % tag)):
                os.unlink(old)
            sys.setrecursionlimit(100000)
            with open(pk, 'wb') as f:
                pickle.dump(bodies, f, protocol=pickle.HIGHEST_PROTOCOL)
            built = True
            if not quiet:
                sys.stderr.write('[facts] rebuilt MIR facts from %s in %.1fs (%d bodies)\n' % (repo, time.time() - t0, len(bodies)))
    finally:
        fcntl.flock(lock, fcntl.LOCK_UN)
        lock.close()
    prog = Program(bodies, repo, key)
    prog.consts = getattr(bodies, 'consts', None) or {}
    prog.built = built
    # fail-closed sanity floors
    nfn = len([b for b in bodies if b.promoted is None])
    prog.n_fn_bodies = nfn
    if nfn < MIN_BODIES:
        raise FactsError('ANCHOR-MISSING: only %d MIR fn bodies (floor %d) — wrapper skipped or crate shrank' % (nfn, MIN_BODIES))
    for h in HANDLERS:
        n = '<%s as CKBProtocolHandler>::received::{closure#0}' % h
        if not prog.has(n):
            raise FactsError('ANCHOR-MISSING: handler body %s' % n)
    from . import normalise
    normalise.apply(prog)
    if not os.environ.get('VERIF_NO_ALIASES'):
        from . import aliases
        prog.aliases = aliases.apply(prog)
    return prog
