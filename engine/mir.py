"""Parser for rustc 1.72.1 textual MIR (-Zunpretty=mir -Zmir-opt-level=0 -Zmir-include-spans).

Pure stdlib.  Produces Body objects with blocks, statements and terminators.  Every construct
the rules rely on is parsed structurally; anything not recognised is kept as raw text with
kind 'other' (statements) or makes the parser fail closed (terminators).
"""
import re
import os

SPAN_RE = re.compile(r'// (?:in )?scope (\d+) at (.*?):(\d+):(\d+): (\d+):(\d+)\s*$')
BB_RE = re.compile(r'^    bb(\d+)( \(cleanup\))?: \{$')
LOCAL_RE = re.compile(r'^\s+let (mut )?_(\d+): (.*?);\s*//')
DEBUG_RE = re.compile(r'^\s+debug (\S+) => (.*?);\s*//')
FN_RE = re.compile(r'^fn (.*) -> (.*) \{$')
IMPL_AT_RE = re.compile(r'<impl at ([^:>]+):(\d+):(\d+): (\d+):(\d+)>')


class ParseError(Exception):
    pass


class Span:
    __slots__ = ('file', 'line', 'col', 'eline', 'ecol')

    def __init__(self, file, line, col, eline, ecol):
        self.file, self.line, self.col, self.eline, self.ecol = file, line, col, eline, ecol

    def __repr__(self):
        return '%s:%d' % (self.file, self.line)

    def local(self):
        return not self.file.startswith('/')


class Stmt:
    __slots__ = ('kind', 'lhs', 'rhs', 'text', 'span', 'extra')

    def __init__(self, kind, lhs, rhs, text, span):
        self.kind, self.lhs, self.rhs, self.text, self.span = kind, lhs, rhs, text, span
        self.extra = []

    def __repr__(self):
        return 'Stmt(%s)' % self.text


class Term:
    __slots__ = ('kind', 'text', 'span', 'targets', 'callee', 'args', 'dest', 'discr',
                 'cond', 'expected', 'msg', 'operands', 'unwind', 'place', 'extra', 'cases')

    def __init__(self, kind, text, span):
        self.kind, self.text, self.span = kind, text, span
        self.targets = []   # normal successors (bb ids)
        self.unwind = None  # cleanup successor bb id or None
        self.callee = self.args = self.dest = self.discr = self.cond = None
        self.expected = self.msg = self.operands = self.place = None
        self.cases = None   # switchInt: list of (value|'otherwise', bb)
        self.extra = []

    def __repr__(self):
        return 'Term(%s)' % self.text


class Block:
    __slots__ = ('id', 'stmts', 'term', 'cleanup')

    def __init__(self, id, cleanup):
        self.id, self.cleanup, self.stmts, self.term = id, cleanup, [], None


class Body:
    def __init__(self, raw_name, sig_args, ret):
        self.raw_name = raw_name
        self.name = None          # canonical, set by canonicalise()
        self.sig_args = sig_args  # text inside the parentheses
        self.params = []          # [(local, type)]
        self.ret = ret
        self.locals = {}          # local -> type text
        self.debug = {}           # name -> place expr text (last wins); see debug_all
        self.debug_all = []       # [(name, place)]
        self.blocks = {}
        self.file = None
        self.line = None
        self.promoted = None

    def normal_blocks(self):
        return [b for b in self.blocks.values() if not b.cleanup]

    def calls(self):
        for b in self.blocks.values():
            if b.term is not None and b.term.kind == 'call':
                yield b, b.term

    def __repr__(self):
        return 'Body(%s)' % (self.name or self.raw_name)


def _match_parens(s):
    """Return dict open_index -> close_index for () pairs, string-literal aware."""
    pairs = {}
    stack = []
    i, n = 0, len(s)
    while i < n:
        c = s[i]
        if c == '"':
            i += 1
            while i < n and s[i] != '"':
                if s[i] == '\\':
                    i += 1
                i += 1
        elif c == "'" and i + 2 < n and (s[i + 2] == "'" or (s[i + 1] == '\\')):
            # char literal like 'a' or '\n' (lifetimes 'a are not followed by a quote)
            j = s.find("'", i + 2 if s[i + 1] != '\\' else i + 3)
            if j != -1 and j - i <= 8:
                i = j
        elif c == '(':
            stack.append(i)
        elif c == ')':
            if stack:
                pairs[stack.pop()] = i
        i += 1
    return pairs


def split_top(s, sep=','):
    """Split on sep at nesting depth 0 of ()[]{}<> (string aware). '<' '>' are tracked only
    loosely: '->' and '=>' are skipped."""
    out = []
    depth = 0
    cur = []
    i, n = 0, len(s)
    while i < n:
        c = s[i]
        if c == '"':
            j = i + 1
            while j < n and s[j] != '"':
                if s[j] == '\\':
                    j += 1
                j += 1
            cur.append(s[i:j + 1])
            i = j + 1
            continue
        if c in '([{':
            depth += 1
        elif c in ')]}':
            depth -= 1
        elif c == '<':
            depth += 1
        elif c == '>':
            if i > 0 and s[i - 1] in '-=':
                pass
            else:
                depth -= 1
        if c == sep and depth == 0:
            out.append(''.join(cur).strip())
            cur = []
        else:
            cur.append(c)
        i += 1
    last = ''.join(cur).strip()
    if last:
        out.append(last)
    return out


TARGETS_RE = re.compile(r' -> (\[.*\]|unwind [a-z]+|unwind: bb\d+|bb\d+)$')


def _parse_targets(t, txt):
    """txt like '[return: bb1, unwind: bb5]' / '[success: bb4, unwind continue]' /
    'unwind continue' / '[0: bb1, otherwise: bb2]'"""
    if txt.startswith('['):
        for part in txt[1:-1].split(', '):
            part = part.strip()
            if part.startswith('unwind'):
                m = re.match(r'unwind: bb(\d+)', part)
                if m:
                    t.unwind = int(m.group(1))
                continue
            k, _, v = part.partition(': ')
            if not v.startswith('bb'):
                raise ParseError('bad target %r in %r' % (part, txt))
            bb = int(v[2:])
            if t.kind == 'switchInt':
                t.cases.append((k if k == 'otherwise' else int(k), bb))
            t.targets.append(bb)
    elif txt.startswith('unwind'):
        m = re.match(r'unwind: bb(\d+)', txt)
        if m:
            t.unwind = int(m.group(1))
    elif txt.startswith('bb'):
        t.targets.append(int(txt[2:]))


def parse_terminator(text, span):
    s = text
    if s == 'return':
        return Term('return', text, span)
    if s == 'resume':
        return Term('resume', text, span)
    if s == 'unreachable':
        return Term('unreachable', text, span)
    if s in ('abort', 'terminate'):
        return Term('abort', text, span)
    m = TARGETS_RE.search(s)
    tgt = None
    head = s
    if m:
        tgt = m.group(1)
        head = s[:m.start()]
    if head.startswith('goto'):
        t = Term('goto', text, span)
        _parse_targets(t, tgt)
        return t
    if head.startswith('switchInt('):
        t = Term('switchInt', text, span)
        t.cases = []
        t.discr = head[len('switchInt('):-1]
        _parse_targets(t, tgt)
        return t
    if head.startswith('drop('):
        t = Term('drop', text, span)
        t.place = head[len('drop('):-1]
        _parse_targets(t, tgt)
        return t
    if head.startswith('assert('):
        t = Term('assert', text, span)
        inner = head[len('assert('):-1]
        parts = split_top(inner)
        c = parts[0]
        t.expected = True
        if c.startswith('!'):
            t.expected = False
            c = c[1:]
        t.cond = c
        t.msg = parts[1] if len(parts) > 1 else ''
        t.operands = parts[2:]
        _parse_targets(t, tgt)
        return t
    if head.startswith('falseEdge') or head.startswith('falseUnwind') or head.startswith('yield'):
        raise ParseError('unexpected terminator %r' % text)
    # call: [DEST = ]CALLEE(ARGS)
    if head.endswith(')'):
        pairs = _match_parens(head)
        close = len(head) - 1
        opn = None
        for o, c in pairs.items():
            if c == close:
                opn = o
                break
        if opn is None:
            raise ParseError('unbalanced call %r' % text)
        pre = head[:opn]
        args = head[opn + 1:close]
        dest = None
        # dest is a place followed by ' = ' at the start
        m2 = re.match(r'^((?:\(\*?)*_\d+[^=]*?) = ', pre)
        if m2:
            dest = m2.group(1)
            pre = pre[m2.end():]
        t = Term('call', text, span)
        t.dest = dest
        t.callee = pre.strip()
        t.args = split_top(args)
        if tgt is not None:
            _parse_targets(t, tgt)
        return t
    raise ParseError('unknown terminator %r' % text)


def _strip_comment(line):
    """Split 'code; // comment' -> (code, comment). String aware."""
    i, n = 0, len(line)
    while i < n:
        c = line[i]
        if c == '"':
            i += 1
            while i < n and line[i] != '"':
                if line[i] == '\\':
                    i += 1
                i += 1
        elif c == '/' and i + 1 < n and line[i + 1] == '/':
            return line[:i].rstrip(), line[i:]
        i += 1
    return line.rstrip(), ''


def parse_file(path):
    bodies = []
    cur = None
    blk = None
    consts = []
    curconst = None
    last = None  # last Stmt/Term for '// +' continuation lines
    with open(path, 'r', errors='replace') as f:
        lines = f.read().split('\n')
    i, n = 0, len(lines)
    skipping = False
    while i < n:
        line = lines[i]
        i += 1
        if cur is None:
            if line.startswith('fn '):
                m = FN_RE.match(line)
                if not m:
                    raise ParseError('bad fn header: %r' % line[:200])
                sig = m.group(1)
                pairs = _match_parens(sig)
                # signature params: last top-level paren group
                close = len(sig) - 1
                if sig[close] != ')':
                    raise ParseError('bad fn sig: %r' % sig[:200])
                opn = [o for o, c in pairs.items() if c == close][0]
                cur = Body(sig[:opn], sig[opn + 1:close], m.group(2))
                for p in split_top(cur.sig_args):
                    pm = re.match(r'_(\d+): (.*)$', p)
                    if pm:
                        cur.params.append((int(pm.group(1)), pm.group(2)))
                        cur.locals[int(pm.group(1))] = pm.group(2)
                skipping = False
            elif line.startswith('promoted['):
                pm = re.match(r'^promoted\[(\d+)\] in (.*) = \{$', line)
                if not pm:
                    raise ParseError('bad promoted header: %r' % line[:200])
                rest = pm.group(2)
                d = 0
                cut = None
                for k, ch in enumerate(rest):
                    if ch in '<[({':
                        d += 1
                    elif ch in ')]}' or (ch == '>' and rest[k - 1] not in '-='):
                        d -= 1
                    elif d == 0 and rest.startswith(': ', k):
                        cut = k
                        break
                if cut is None:
                    raise ParseError('bad promoted header: %r' % line[:200])
                cur = Body(rest[:cut], '', rest[cut + 2:])
                cur.promoted = int(pm.group(1))
                skipping = False
            elif line.startswith('const ') or line.startswith('static '):
                # consts / statics: not bodies; named integer consts are kept (name, type, body text) so that
                # `const _` operands can be resolved (resolve_const_operands) and their values held to a reference
                skipping = True
                cm = re.match(r'^const ((?:[\w]+::)*)([A-Z][A-Z0-9_]*): ([^=]+?) = \{$', line)
                curconst = None
                if cm:
                    curconst = {'name': cm.group(2), 'path': cm.group(1), 'ty': cm.group(3), 'lines': []}
                    consts.append(curconst)
            elif skipping and line == '}':
                skipping = False
                curconst = None
            elif skipping and curconst is not None:
                curconst['lines'].append(line)
            continue
        if line == '}':
            bodies.append(cur)
            cur = None
            blk = None
            continue
        m = BB_RE.match(line)
        if m:
            blk = Block(int(m.group(1)), bool(m.group(2)))
            cur.blocks[blk.id] = blk
            continue
        if blk is None:
            m = LOCAL_RE.match(line)
            if m:
                cur.locals[int(m.group(2))] = m.group(3)
                if int(m.group(2)) == 0:
                    sm = SPAN_RE.search(line)
                    if sm:
                        cur.file, cur.line = sm.group(2), int(sm.group(3))
                continue
            m = DEBUG_RE.match(line)
            if m:
                cur.debug[m.group(1)] = m.group(2)
                cur.debug_all.append((m.group(1), m.group(2)))
            continue
        if line == '    }':
            blk = None
            continue
        st = line.strip()
        if not st:
            continue
        if st.startswith('//'):
            if last is not None:
                last.extra.append(st)
            continue
        code, comment = _strip_comment(line)
        code = code.strip()
        sm = SPAN_RE.search(comment)
        span = Span(sm.group(2), int(sm.group(3)), int(sm.group(4)), int(sm.group(5)), int(sm.group(6))) if sm else None
        if not code.endswith(';'):
            raise ParseError('statement without ; : %r' % line[:300])
        code = code[:-1]
        # terminator?
        is_term = False
        if (code in ('return', 'resume', 'unreachable', 'abort', 'terminate') or
                code.startswith(('goto ->', 'switchInt(', 'drop(', 'assert(', 'falseEdge', 'falseUnwind', 'yield'))):
            is_term = True
        elif TARGETS_RE.search(code) and not code.startswith(('StorageLive', 'StorageDead')):
            is_term = True
        if is_term:
            blk.term = parse_terminator(code, span)
            last = blk.term
        else:
            kind, lhs, rhs = 'other', None, None
            if not code.startswith(('StorageLive(', 'StorageDead(', 'nop', 'FakeRead', 'AscribeUserType', 'PlaceMention', 'Retag', 'Coverage', 'ConstEvalCounter', 'Deinit(', 'set_discriminant', 'discriminant(')):
                # assignment 'PLACE = RVALUE' : split at first ' = ' at depth 0
                idx = _find_assign(code)
                if idx is not None:
                    kind, lhs, rhs = 'assign', code[:idx], code[idx + 3:]
            if code.startswith('StorageLive('):
                kind = 'live'
                lhs = code[12:-1]
            elif code.startswith('StorageDead('):
                kind = 'dead'
                lhs = code[12:-1]
            elif code.startswith('discriminant('):
                # 'discriminant(PLACE) = N'
                m3 = re.match(r'discriminant\((.*)\) = (\d+)$', code)
                if m3:
                    kind, lhs, rhs = 'setdiscr', m3.group(1), m3.group(2)
            s = Stmt(kind, lhs, rhs, code, span)
            blk.stmts.append(s)
            last = s
    for b in bodies:
        if b.file is None:
            for blk in b.blocks.values():
                if blk.term is not None and blk.term.span is not None:
                    b.file, b.line = blk.term.span.file, blk.term.span.line
                    break
        for blk in b.blocks.values():
            if blk.term is None:
                raise ParseError('block without terminator: %s bb%d' % (b.raw_name, blk.id))
    out = BodyList(bodies)
    out.consts = fold_consts(consts)
    return out


class BodyList(list):
    """list of bodies + `consts`: {NAME: {'ty':, 'value': folded integer or None, 'digest': sha1 of the body text}}"""
    consts = None


def fold_consts(items):
    import hashlib
    out = {}
    dup = set()
    for it in items:
        stmts = []
        for ln in it['lines']:
            t = ln.split('//')[0].strip().rstrip(';')
            if t and not t.startswith(('let ', 'bb', '}', 'StorageLive', 'StorageDead', 'assert(', 'return', 'scope', 'debug ', 'goto')):
                stmts.append(t)
        env = {}

        def ev(o):
            o = o.strip()
            o = re.sub(r'^(move|copy) ', '', o)
            m = re.fullmatch(r'const (-?\d+)_[iu]\w+', o)
            if m:
                return int(m.group(1))
            m = re.fullmatch(r'\(?(_\d+)(?:\.0: [^)]*\))?', o)
            if m and m.group(1) in env:
                return env[m.group(1)]
            raise ValueError(o)
        val = None
        try:
            for t in stmts:
                m = re.match(r'^(_\d+) = (.*)$', t)
                if not m:
                    raise ValueError(t)
                lhs, rhs = m.group(1), m.group(2)
                b = re.match(r'^(Checked)?(Add|Sub|Mul|Div|Shl|Shr)\((.*), (.*)\)$', rhs)
                if b:
                    x, y = ev(b.group(3)), ev(b.group(4))
                    env[lhs] = {'Add': x + y, 'Sub': x - y, 'Mul': x * y, 'Div': x // y if y else 0, 'Shl': x << y, 'Shr': x >> y}[b.group(2)]
                else:
                    env[lhs] = ev(rhs)
            val = env.get('_0')
        except (ValueError, KeyError):
            val = None
        body = '\n'.join(stmts)
        ent = {'ty': it['ty'].strip(), 'value': val, 'digest': hashlib.sha1(body.encode()).hexdigest()[:12], 'path': it['path']}
        if it['name'] in out and out[it['name']] != ent:
            dup.add(it['name'])
        out[it['name']] = ent
    for d in dup:            # same simple name in two modules with different values: not resolvable by name
        out[d] = {'ty': '?', 'value': None, 'digest': 'ambiguous', 'path': ''}
    return out


_IDENT = re.compile(r'\b[A-Z][A-Z0-9_]{2,}\b')


def resolve_const_operands(bodies, repo):
    """rustc 1.72 prints an unevaluated named constant operand as `const _` and, for plain operands, without the
    `// + literal:` comment that names it.  The statement's span covers the source expression: the named constants of the
    crate that occur in that text, in order, are recorded as synthetic literal comments (same form as rustc's) so that
    all consumers of `extra` see the name."""
    import os
    consts = getattr(bodies, 'consts', None) or {}
    if not consts:
        return 0
    cache = {}

    def text_of(span):
        if not span:
            return ''
        f, l1, c1, l2, c2 = span.file, span.line, span.col, span.eline, span.ecol
        if os.path.isabs(f):
            return ''
        if f not in cache:
            try:
                cache[f] = open(os.path.join(repo, f), errors='replace').read().split('\n')
            except OSError:
                cache[f] = None
        src = cache[f]
        if src is None or l1 < 1 or l2 > len(src):
            return ''
        if l1 == l2:
            return src[l1 - 1][c1 - 1:c2 - 1]
        return '\n'.join([src[l1 - 1][c1 - 1:]] + src[l1:l2 - 1] + [src[l2 - 1][:c2 - 1]])
    n = 0
    for b in bodies:
        for blk in b.blocks.values():
            for it in list(blk.stmts) + [blk.term]:
                if it is None or not it.text or 'const _' not in it.text:
                    continue
                if any('Unevaluated(' in e for e in it.extra):
                    continue
                names = [x for x in _IDENT.findall(text_of(it.span)) if x in consts]
                if not names:
                    continue
                for nm in names:
                    it.extra.append('// + literal: Const { ty: %s, val: Unevaluated(%s, [], None) } (resolved from the source span)' % (consts[nm]['ty'], nm))
                n += 1
    return n


def _find_assign(code):
    depth = 0
    i, n = 0, len(code)
    while i < n:
        c = code[i]
        if c == '"':
            return None
        if c in '([{<':
            depth += 1
        elif c in ')]}':
            depth -= 1
        elif c == '>' and i > 0 and code[i - 1] not in '-=':
            depth -= 1
        if depth == 0 and code.startswith(' = ', i):
            return i
        i += 1
    return None


# ---------------------------------------------------------------------------------------------
# canonical names


def strip_generics(path):
    """Remove '::<...>' turbofish groups and bare '<...>' after identifiers at depth 0, keeping
    leading '<T as Trait>' qualified-self forms intact (with generics stripped inside)."""
    out = []
    i, n = 0, len(path)
    while i < n:
        if path.startswith('::<', i):
            # skip balanced <...>
            j = i + 3
            d = 1
            while j < n and d:
                if path[j] == '<':
                    d += 1
                elif path[j] == '>' and path[j - 1] not in '-=':
                    d -= 1
                j += 1
            i = j
            continue
        out.append(path[i])
        i += 1
    return ''.join(out)


_impl_cache = {}


def _read_impl_header(repo, file, line):
    key = (repo, file, line)
    if key in _impl_cache:
        return _impl_cache[key]
    p = file if file.startswith('/') else os.path.join(repo, file)
    try:
        with open(p, 'r', errors='replace') as f:
            src = f.read().split('\n')
    except OSError:
        _impl_cache[key] = None
        return None
    # header may span several lines until '{'
    txt = ''
    j = line - 1
    while j < len(src) and j < line + 8:
        txt += ' ' + src[j].strip()
        if '{' in src[j]:
            break
        j += 1
    _impl_cache[key] = txt.strip()
    return _impl_cache[key]


def _last_seg(ty):
    ty = ty.strip()
    ty = re.sub(r"^&(?:'\w+ )?(?:mut )?", '', ty)
    ty = strip_angle(ty)
    return ty.split('::')[-1].strip()


def strip_angle(ty):
    out = []
    d = 0
    for k, c in enumerate(ty):
        if c == '<':
            d += 1
            continue
        if c == '>' and (k == 0 or ty[k - 1] not in '-='):
            d -= 1
            continue
        if d == 0:
            out.append(c)
    return ''.join(out)


IMPL_HDR_RE = re.compile(r"impl\s*(<.*?>\s*)?(?:(?P<trait>[\w:]+(?:<.*?>)?)\s+for\s+)?(?P<ty>[&\w:'\[\] ]+?(?:<.*?>)?)\s*(?:where.*)?\{")


def canonicalise(bodies, repo):
    """Set body.name to the call-site form: 'Type::method', '<Type as Trait>::method',
    'free_fn', each followed by '::{closure#N}' suffixes.  Derive macros (impl header is an
    attribute such as #[derive(Clone)]) get '<derive Clone at file:line>::method'."""
    for b in bodies:
        _canon_one(b, repo)
        if b.promoted is not None:
            b.name += '::promoted[%d]' % b.promoted


def _canon_one(b, repo):
    if True:
        raw = b.raw_name
        m = IMPL_AT_RE.search(raw)
        if not m:
            # free function (possibly nested in module path) and closures
            segs = _split_path(raw)
            # drop leading module segments: keep from the first segment that is followed only by
            # closure segments or is last
            k = len(segs) - 1
            while k > 0 and segs[k].startswith('{'):
                k -= 1
            b.name = '::'.join(segs[k:])
            b.module = '::'.join(segs[:k])
            return
        # there can be several <impl at> (nested items); use the LAST for naming
        ms = list(IMPL_AT_RE.finditer(raw))
        m = ms[-1]
        file, line = m.group(1), int(m.group(2))
        rest = raw[m.end():]  # '::method::{closure#0}'
        hdr = _read_impl_header(repo, file, line)
        name = None
        if hdr is not None and file.startswith('src/'):
            hm = IMPL_HDR_RE.search(hdr)
            if hm and hdr.lstrip().startswith('impl'):
                ty = _last_seg(hm.group('ty'))
                tr = hm.group('trait')
                if tr:
                    name = '<%s as %s>%s' % (ty, _last_seg(tr), rest)
                else:
                    name = ty + rest
            elif 'derive' in hdr or hdr.lstrip().startswith('#['):
                name = '<derive@%s:%d>%s' % (file, line, rest)
        if name is None:
            name = '<impl@%s:%d>%s' % (file, line, rest)
        b.name = name
        b.module = raw[:ms[0].start()].rstrip(':')


def _split_path(p):
    out = []
    d = 0
    cur = []
    i = 0
    while i < len(p):
        c = p[i]
        if c in '<[({':
            d += 1
        elif c in '>])}':
            d -= 1
        if d == 0 and p.startswith('::', i):
            out.append(''.join(cur))
            cur = []
            i += 2
            continue
        cur.append(c)
        i += 1
    out.append(''.join(cur))
    return out


KEY_ALIASES = {}      # renamed function -> reviewed name (engine.normalise)


_ORD_MINMAX = re.compile(r'^(?:<\w+ as Ord>|cmp|u8|u16|u32|u64|u128|usize|i8|i16|i32|i64|i128|isize)::(min|max)$')


def callee_key(callee):
    k = _callee_key(callee)
    m = _ORD_MINMAX.match(k)
    if m:                       # `a.min(b)`, `cmp::min(a, b)`, `Ord::min(a, b)`: one function
        return 'Ord::' + m.group(1)
    return KEY_ALIASES.get(k, k) if KEY_ALIASES else k


def _callee_key(callee):
    """Normalise a call-site callee for matching: strip generics, and reduce a path to its last
    two segments ('Type::method') or to the qualified form '<Type as Trait>::method' with Type and
    Trait reduced to last segments."""
    c = strip_generics(callee.strip())
    if c.startswith('<'):
        # <T as Trait>::method
        d = 0
        for k, ch in enumerate(c):
            if ch == '<':
                d += 1
            elif ch == '>' and c[k - 1] not in '-=':
                d -= 1
                if d == 0:
                    break
        inner, rest = c[1:k], c[k + 1:]
        if ' as ' in inner:
            ty, tr = inner.rsplit(' as ', 1)
            # careful with nested ' as ' — take top-level split
            parts = _split_top_as(inner)
            if parts:
                ty, tr = parts
            return '<%s as %s>%s' % (_last_seg(ty), _last_seg(tr), rest)
        return '<%s>%s' % (_last_seg(inner), rest)
    segs = _split_path(c)
    if len(segs) >= 2:
        return '::'.join(segs[-2:])
    return c


def _split_top_as(inner):
    d = 0
    i = 0
    while i < len(inner):
        ch = inner[i]
        if ch in '<[(':
            d += 1
        elif ch in ')]':
            d -= 1
        elif ch == '>' and inner[i - 1] not in '-=':
            d -= 1
        if d == 0 and inner.startswith(' as ', i):
            return inner[:i], inner[i + 4:]
        i += 1
    return None
