"""Rule-instance bookkeeping, shared rule helpers, evidence and report writing."""
import os
import re
import json
import time

from . import mir
from .program import FactsError, VERIF
from .flow import GuardFlow
from .cfg import CFG


class Inconclusive(Exception):
    """Exit 2: an anchor is missing/ambiguous or an idiom is not recognised.  Never a VIOLATION."""


def atxt(span):
    return '%s:%d' % (span.file, span.line) if span is not None else '?'


class Ctx:
    def __init__(self, pid, prog, tier='quick', seed=0):
        self.pid = pid
        self.prog = prog
        self.tier = tier
        self.seed = seed
        self.t0 = time.time()
        self.obligations = []      # dicts
        self.violations = []       # dicts with 'key'
        self.rules_hit = {}        # rule id -> count of sites matched
        self.functions = set()
        self.call_sites = 0
        self.notes = []
        self.assumptions = []
        self.explanation = ''
        self.not_decided = ''
        self.selftest = []

    # ---- recording ---------------------------------------------------------------------
    def fn(self, body):
        self.functions.add(body.name)
        return body

    def ob(self, rule, fn, what, ok, at=None, **detail):
        """One obligation = one rule instance at one site.  `what` is a stable, line-free
        descriptor; the violation key is property|rule|fn|what."""
        rec = {'rule': rule, 'fn': fn, 'what': what, 'ok': bool(ok)}
        if at is not None:
            rec['at'] = at if isinstance(at, str) else atxt(at)
        rec.update(detail)
        self.obligations.append(rec)
        self.rules_hit[rule] = self.rules_hit.get(rule, 0) + 1
        if not ok:
            v = dict(rec)
            v['key'] = '%s|%s|%s|%s' % (self.pid, rule, fn, what)
            self.violations.append(v)
        return ok

    def floor(self, rule, what, count, minimum):
        if count < minimum:
            raise Inconclusive('ANCHOR-MISSING: %s %s: found %d site(s), hand-confirmed floor is %d'
                               % (rule, what, count, minimum))

    def note(self, s):
        self.notes.append(s)

    # ---- helpers built on the program --------------------------------------------------
    def body(self, name):
        try:
            return self.fn(self.prog.body(name))
        except FactsError as e:
            raise Inconclusive(str(e))

    def sites(self, body, pred, minimum=1, what=None, closures=True):
        """call sites (block ids) in `body` for callee pred, including blocks that build a
        closure containing such a call.  Returns [(bid, span, label)]."""
        out = []
        for bid, t in self.prog.call_sites(body, pred):
            out.append((bid, t.span, mir.callee_key(t.callee)))
        if closures:
            for bid, c in self.prog.closure_sites(body, pred):
                out.append((bid, body.blocks[bid].term.span, 'closure:' + c.name.rsplit('::', 1)[-1]))
        self.call_sites += len(out)
        if len(out) < minimum:
            raise Inconclusive('ANCHOR-MISSING: %s has %d call site(s) of %s (floor %d)'
                               % (body.name, len(out), what or pred, minimum))
        return out

    def success_sinks(self, body, failure=('Err', 'false', 'None')):
        """Blocks assigning the return place `_0` something that is not provably a failure
        value.  Used for 'guarded success' rules."""
        out = []
        for bid, blk in body.blocks.items():
            if blk.cleanup:
                continue
            for s in blk.stmts:
                if s.kind == 'assign' and s.lhs.strip() == '_0':
                    rhs = s.rhs.strip()
                    kind = classify_ret(rhs)
                    if kind not in failure:
                        out.append((bid, s.span, 'return ' + kind))
            t = blk.term
            if t.kind == 'call' and t.dest and t.dest.strip() == '_0' and 'FromResidual' not in t.callee:
                out.append((bid, t.span, 'return <call %s>' % mir.callee_key(t.callee)))
        return out

    def guard(self, rule, F, gpred, accept, sinks, unconditional=True, gname=None, min_guards=1,
              which=None, removed=()):
        """P2: for each call site of gpred in F and each sink, the sink is only reachable in
        worlds where the guard returned `accept` (and, if unconditional, did run).
        `which`: optional filter on guard sites (callable on (bid, term)) or index list."""
        gsites = self.prog.call_sites(F, gpred)
        if which is not None:
            if callable(which):
                gsites = [g for g in gsites if which(*g)]
            else:
                gsites = [g for k, g in enumerate(gsites) if k in which]
        gname = gname or (gpred if isinstance(gpred, str) else 'guard')
        if len(gsites) < min_guards:
            # a missing guard is a violation, not a missing anchor: the sinks are reached without it
            for (sb, sspan, slabel) in sinks:
                self.ob(rule, F.name, 'guard %s=%s before %s' % (gname, accept, slabel), False, sink_at=atxt(sspan),
                        problem='%d call(s) of the guard in this function, %d required' % (len(gsites), min_guards))
            if not sinks:
                raise Inconclusive('ANCHOR-MISSING: %s in %s: %d guard call(s) of %s (floor %d) and no sink'
                                   % (rule, F.name, len(gsites), gname, min_guards))
            return False
        gf = GuardFlow(F, self.prog.cfg(F))
        allok = True
        for gi, (gb, gt) in enumerate(gsites):
            for (sb, sspan, slabel) in sinks:
                ok, det = gf.check_sink(gb, accept, sb, unconditional, removed)
                tag = '' if len(gsites) == 1 else '#%d' % gi
                allok &= self.ob(rule, F.name, 'guard %s%s=%s before %s' % (gname, tag, accept, slabel), ok,
                                 at=gt.span, sink_at=atxt(sspan), unconditional=unconditional, **det)
        self.call_sites += len(gsites)
        return allok

    def loop_guard(self, rule, B, gpred, accept, gname=None, sinks=None):
        """Per-element guard inside a loop: (a) the sinks (default: success returns of B) are only
        reachable in worlds where the guard did not reject; (b) every loop iteration passes the
        guard: with the guard block removed, the iterator `next` block cannot reach itself."""
        P = self.prog
        succ = sinks if sinks is not None else self.success_sinks(B)
        self.floor(rule, 'sinks of loop guard in ' + B.name, len(succ), 1)
        self.guard(rule, B, gpred, accept, succ, unconditional=False, gname=gname)
        cfg = P.cfg(B)
        gs = P.call_sites(B, gpred)
        nexts = [bid for bid, k, t in P.call_keys(B) if k.endswith('Iterator>::next')
                 and any(bid in cfg.reachable_from(cfg.succ[g[0]]) and g[0] in cfg.reachable_from(cfg.succ[bid]) for g in gs)]
        if not nexts:
            raise Inconclusive('%s: no Iterator::next loop around %s in %s' % (rule, gname or gpred, B.name))
        for nb in nexts:
            r = cfg.reachable_from(cfg.succ[nb], removed_nodes={g[0] for g in gs})
            self.ob(rule, B.name, 'every loop iteration passes %s' % (gname or gpred), nb not in r,
                    at=B.blocks[nb].term.span)

    def cmp_stmts(self, body):
        """[(bid, idx, op, a, b, stmt)] for primitive comparisons `_x = Eq|Ne|Lt|Le|Gt|Ge(a, b)`."""
        out = []
        for bid, blk in body.blocks.items():
            if blk.cleanup:
                continue
            for i, s in enumerate(blk.stmts):
                if s.kind != 'assign':
                    continue
                m = re.match(r'^(Eq|Ne|Lt|Le|Gt|Ge)\((.*), (.*)\)$', s.rhs.strip())
                if m and re.fullmatch(r'_\d+', s.lhs.strip()):
                    out.append((bid, i, m.group(1), m.group(2).strip(), m.group(3).strip(), s))
        return out

    def stmt_guard(self, rule, F, sites, accept, sinks, unconditional=True, gname='comparison', min_guards=1):
        """P2 with a primitive comparison statement as the guard.  sites: [(bid, idx, ...)] from cmp_stmts."""
        if len(sites) < min_guards:
            for (sb, sspan, slabel) in sinks:
                self.ob(rule, F.name, 'guard %s=%s before %s' % (gname, accept, slabel), False, sink_at=atxt(sspan),
                        problem='%d comparison(s) of this shape in this function, %d required' % (len(sites), min_guards))
            if not sinks:
                raise Inconclusive('ANCHOR-MISSING: %s in %s: %d comparison(s) %s (floor %d) and no sink' % (rule, F.name, len(sites), gname, min_guards))
            return False
        gf = GuardFlow(F, self.prog.cfg(F))
        allok = True
        for gi, site in enumerate(sites):
            bid, idx = site[0], site[1]
            st = F.blocks[bid].stmts[idx]
            for (sb, sspan, slabel) in sinks:
                ok, det = gf.check_sink((bid, idx), accept, sb, unconditional)
                tag = '' if len(sites) == 1 else '#%d' % gi
                allok &= self.ob(rule, F.name, 'guard %s%s=%s before %s' % (gname, tag, accept, slabel), ok,
                                 at=st.span, sink_at=atxt(sspan), unconditional=unconditional, **det)
        return allok

    def loop_visits_all(self, rule, F, what, history=None):
        """Every `for` loop of F runs to the end of its iterator: no `return` is reachable from inside a loop body except through
        the loop's own exit (the `None` arm of `next`): the body neither returns nor breaks.  (`return` where `continue` was meant silently
        skips the remaining elements.)"""
        cfg = self.prog.cfg(F)
        loops = 0
        for nb, k, t in self.prog.call_keys(F):
            if not (k.endswith('::next') or k.endswith('Iterator>::next')) or not t.targets:
                continue
            if nb not in cfg.reachable_from(cfg.succ[nb]):
                continue                                   # not a loop head
            a = F.blocks.get(t.targets[0])
            if a is None or a.term.kind != 'switchInt' or not a.term.cases:
                continue
            d = dict(a.term.cases)
            none_b, some_b = d.get(0), d.get(1, d.get('otherwise'))
            if none_b is None or some_b is None:
                continue
            loops += 1
            # the loop is left only through the `None` arm: from the body, without passing the loop head again, no return is
            # reachable (a `return` and a `break` inside the body are the same thing when nothing follows the loop)
            body = cfg.reachable_from([some_b], removed_nodes={nb}) | {some_b}
            inside = sorted(b for b in body if F.blocks[b].term.kind == 'return')
            self.ob(rule, F.name, what, not inside, at=t.span, returns_inside_loop=len(inside), failing_history=None if not inside else history)
        return loops

    def only_callers(self, rule, sink, allowed, minimum=1):
        """P1: every function mentioning `sink` is in `allowed`."""
        if not self.prog.has(sink):
            raise Inconclusive('ANCHOR-MISSING: no function %s' % sink)
        callers = self.prog.callers_of(sink)
        self.floor(rule, 'callers of ' + sink, len(callers), minimum)
        ok_all = True
        for c in callers:
            ok_all &= self.ob(rule, c, 'may call %s' % sink, c in allowed, allowed=sorted(allowed))
        return ok_all

    # ---- finish ------------------------------------------------------------------------
    def finish(self):
        known = load_known()
        unknown = []
        known_hit = []
        for v in self.violations:
            if v['key'] in known:
                known_hit.append(v)
            else:
                unknown.append(v)
        wall = time.time() - self.t0
        distinct_rules = len([r for r, c in self.rules_hit.items() if c > 0])
        ev = {
            'property_id': self.pid,
            'tier': self.tier,
            'seed': self.seed,
            'level': 'other',
            'coverage': {
                'explanation': self.explanation,
                'not_decided': self.not_decided,
                'obligations': len(self.obligations),
                'discharged': len([o for o in self.obligations if o['ok']]),
                'evaluations': len(self.obligations),
                'distinct_nontrivial': distinct_rules,
                'rule': 'one evaluation = one rule instance decided at one site of the MIR of /repo\'s working tree; '
                        'distinct_nontrivial = number of distinct rule ids that matched at least one site',
                'rules': dict(sorted(self.rules_hit.items())),
                'functions_analysed': sorted(self.functions),
                'call_sites': self.call_sites,
                'mir_bodies_in_crate': self.prog.n_fn_bodies,
                'facts_key': self.prog.key,
                'samples': self.obligations[:6] + [o for o in self.obligations if not o['ok']][:6],
                'known_findings_hit': [v['key'] for v in known_hit],
                'notes': self.notes,
                'selftest_mutants': self.selftest,
                'selftest_detected': len([m for m in self.selftest if m['status'] == 'detected']),
                'exhaustive': True,
            },
            'assumptions': self.assumptions + COMMON_ASSUMPTIONS,
            'wall_s': round(wall, 3),
            'violations': len(unknown),
        }
        evdir = os.environ.get('VERIF_EVIDENCE_DIR', os.path.join(VERIF, 'evidence'))
        os.makedirs(evdir, exist_ok=True)
        with open(os.path.join(evdir, self.pid + '.json'), 'w') as f:
            json.dump(ev, f, indent=1, default=str)
        print('[%s] %d obligations over %d functions / %d rule ids; %d violated (%d known findings) in %.2fs'
              % (self.pid, len(self.obligations), len(self.functions), distinct_rules,
                 len(self.violations), len(known_hit), wall))
        if self.selftest:
            print('[%s] self-test: %d mutants: %s' % (self.pid, len(self.selftest), ', '.join('%s=%s' % (m['mutant'], m['status']) for m in self.selftest)))
        for v in known_hit:
            print('KNOWN-FINDING: property=%s %s (%s)' % (self.pid, v['key'], v.get('at', '?')))
        if unknown:
            rdir = os.environ.get('VERIF_REPORT_DIR', os.path.join(VERIF, 'reports'))
            os.makedirs(rdir, exist_ok=True)
            rp = os.path.join(rdir, '%s.json' % self.pid)
            with open(rp, 'w') as f:
                json.dump({'property': self.pid, 'facts_key': self.prog.key, 'violations': unknown}, f, indent=1, default=str)
            for v in unknown:
                print('  violated: %s  at %s  %s' % (v['key'], v.get('at', '?'),
                                                   json.dumps({k: v[k] for k in v if k not in ('key', 'rule', 'fn', 'what', 'ok', 'at')}, default=str)[:400]))
            print('VIOLATION property=%s replay=%s' % (self.pid, rp))
            return 1
        return 0


COMMON_ASSUMPTIONS = [
    'rustc 1.72.1 MIR construction (the repository\'s pinned toolchain) is trusted; analysed at -Zmir-opt-level=0',
    'the CFG over-approximates feasible paths: dominance / unreachability verdicts are sound, reachability reports may be infeasible',
    'values flowing through the heap, DashMap or RocksDB are not tracked by def-use chains',
    'only the shipped configuration is analysed: the [[bin]] target with default features, cfg(not(test))',
    'library callees are trusted to behave as documented',
]


def classify_ret(rhs):
    rhs = rhs.strip()
    m = re.match(r'^(?:std::result::)?Result::<.*>::(Ok|Err)\(', rhs)
    if m:
        return m.group(1)
    m = re.match(r'^(?:std::option::)?Option::<.*>::(Some|None)\b', rhs)
    if m:
        return m.group(1)
    if rhs == 'const true':
        return 'true'
    if rhs == 'const false':
        return 'false'
    return 'value'


def load_known():
    p = os.path.join(VERIF, 'known_findings.json')
    if not os.path.exists(p):
        return {}
    with open(p) as f:
        data = json.load(f)
    out = {}
    for e in data.get('findings', []):
        if e.get('status') == 'known':
            out[e['key']] = e
    return out


def place_switch_guard(prog, body, place_re, sink_blocks, accept_true=True):
    """Every path from entry to each sink block passes the accepting edge of a switchInt whose
    discriminant is a copy of a place matching place_re (e.g. the `proved` flag `((*_2).0: bool)`).
    Returns (ok, n_decisions)."""
    cfg = prog.cfg(body)
    pr = re.compile(place_re)
    dec_edges = set()
    ndec = 0
    for bid, blk in body.blocks.items():
        if blk.cleanup or blk.term.kind != 'switchInt':
            continue
        d = blk.term.discr.strip()
        for pre in ('move ', 'copy '):
            if d.startswith(pre):
                d = d[len(pre):]
        ok_src = bool(pr.search(d))
        if not ok_src and re.fullmatch(r'_\d+', d):
            # look for the defining assignment in the same block
            for s in blk.stmts:
                if s.kind == 'assign' and s.lhs.strip() == d and pr.search(s.rhs):
                    ok_src = True
        if not ok_src:
            continue
        ndec += 1
        for c, tgt in blk.term.cases:
            is_true = (c == 'otherwise') or (isinstance(c, int) and c != 0)
            if is_true == accept_true:
                dec_edges.add((bid, tgt))
    reach = cfg.reachable_from([cfg.entry], removed_edges=dec_edges)
    ok = all(sb not in reach for sb in sink_blocks)
    return ok, ndec
