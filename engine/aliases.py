"""Rename tolerance for the rules that refer to source variable names (the C10 / C14 abort-site descriptors and their reviewed
table, a few `F.debug.get('name')` anchors).

`rules/names_reference.json` records, for every function of the reviewed tree, each named local's *provenance digest* (how the
value is computed — engine.exits — with captures identified by their capture slot and parameters by position).  After loading a
program, `apply(prog)` looks at every function whose set of names differs from the reference: a current name that the reference
does not know, whose provenance digest equals that of a reference name which has disappeared from the function, is an alias of it
(the variable was renamed) and the body's debug map is rewritten to the reference name.  A variable whose computation changed
keeps its new name, so a real change is still seen as a change."""
import hashlib
import json
import os
import re

REF = os.path.join(os.path.dirname(os.path.dirname(os.path.abspath(__file__))), 'rules', 'names_reference.json')


def _digest(s):
    return hashlib.sha1(s.encode()).hexdigest()[:14]


def _named(prog, body):
    """[(name, place, digest)] for the debug entries of a body."""
    from .exits import Exits
    X = Exits(prog, body)
    out = []
    is_closure = '{closure' in (body.name or '')
    for name, place in body.debug_all:
        pl = place.strip()
        m = re.fullmatch(r'_(\d+)', pl)
        if m:
            try:
                d = X.local(int(m.group(1)))
            except RecursionError:
                d = '?'
            out.append((name, pl, _digest(d)))
            continue
        if is_closure and re.search(r'(?<![\d_])_1(?!\d)', pl):
            k = re.search(r'_1\)?\.(\d+)', pl)
            out.append((name, pl, _digest('capture#%s' % (k.group(1) if k else '?'))))
            continue
        out.append((name, pl, _digest('place:' + re.sub(r'_\d+', '_', pl))))
    return out


def _capture_env(body):
    env = {}
    for name, place in body.debug_all:
        pl = place.strip()
        if re.search(r'(?<![\d_])_1(?!\d)', pl):
            k = re.search(r'_1\)?\.(\d+)', pl)
            env[name] = 'capture#%s' % (k.group(1) if k else '?')
    return env


def body_digest(prog, body):
    """Content digest of a closure body (its exit census with captures named by slot): identifies a closure independently of
    its ordinal among the closures of the enclosing function."""
    from .exits import Exits
    try:
        ex = Exits(prog, body, cap_env=_capture_env(body)).census()
    except RecursionError:
        return '?'
    return _digest(repr(sorted((e['cls'], e['label'], tuple(e['full'])) for e in ex)) + '|' + re.sub(r'\[closure@[^\]]*\]', '[closure]', body.ret or ''))


def generate(prog):
    ref = {}
    for b in prog.bodies:
        if b.promoted is not None or not b.debug_all or not b.file or '/tests/' in b.file:
            continue
        ent = {}
        for name, pl, dg in _named(prog, b):
            ent.setdefault(name, [])
            if dg not in ent[name]:
                ent[name].append(dg)
        if '{closure' in b.name:
            ent['__body__'] = [body_digest(prog, b)]
        key = b.name
        if key in ref:
            # ambiguous canonical name (overloads): merge
            for n, ds in ent.items():
                ref[key].setdefault(n, [])
                ref[key][n] += [d for d in ds if d not in ref[key][n]]
        else:
            ref[key] = ent
    return ref


def apply(prog):
    if not os.path.exists(REF):
        return {}
    with open(REF) as f:
        ref = json.load(f)
    applied = {}
    _reorder_closures(prog, ref, applied)
    for b in prog.bodies:
        r = ref.get(b.name)
        if not r or not b.debug_all:
            continue
        cur_names = {n for n, _ in b.debug_all}
        r = {k: v for k, v in r.items() if k != '__body__'}
        if cur_names <= set(r):
            continue
        gone = {n for n in r if n not in cur_names}
        if not gone:
            continue
        amap = {}
        named = _named(prog, b)
        for name, pl, dg in named:
            if name in r or name in amap:
                continue
            cands = [g for g in gone if dg in r[g] and g not in amap.values()]
            if len(cands) == 1:
                amap[name] = cands[0]
        if amap:
            b.debug_all = [(amap.get(n, n), p) for n, p in b.debug_all]
            b.debug = {amap.get(n, n): p for n, p in b.debug.items()}
            applied[b.name] = amap
    return applied


def _reorder_closures(prog, ref, applied):
    """Closures are numbered by position; moving a block of code renumbers them.  Where the closures directly inside a function
    do not match the reference positionally but do match it as a set (by content digest), give them the reference ordinals."""
    groups = {}
    for b in prog.bodies:
        m = re.match(r'^(.*)::\{closure#(\d+)\}$', b.name or '')
        if m and b.promoted is None:
            groups.setdefault((m.group(1), b.file), []).append(b)
    renames = []
    for (parent, _f), cs in groups.items():
        refd = {}
        for c in cs:
            r = ref.get(c.name)
            if r and '__body__' in r:
                refd[c.name] = r['__body__'][0]
        if len(refd) != len(cs) or len(cs) < 2:
            continue
        cur = {c.name: None for c in cs}
        # cheap pre-test: only compute digests when some closure's named locals differ from the reference
        if all({n for n, _ in c.debug_all} <= set(ref[c.name]) for c in cs):
            continue
        for c in cs:
            cur[c.name] = body_digest(prog, c)
        if all(cur[n] == refd[n] for n in cur):
            continue
        if sorted(cur.values()) != sorted(refd.values()) or len(set(refd.values())) != len(refd):
            continue
        by_dig = {d: n for n, d in refd.items()}
        for c in cs:
            new = by_dig[cur[c.name]]
            if new != c.name:
                renames.append((c.name, new))
    if not renames:
        return
    # apply simultaneously, including nested closures and promoted bodies (prefix replacement)
    tmp = {old: '\0%d\0' % i for i, (old, new) in enumerate(renames)}
    fin = {'\0%d\0' % i: new for i, (old, new) in enumerate(renames)}
    for b in prog.bodies:
        n = b.name or ''
        for old, t in tmp.items():
            if n == old or n.startswith(old + '::'):
                n = t + n[len(old):]
                break
        for t, new in fin.items():
            if n.startswith(t):
                n = new + n[len(t):]
                break
        if n != b.name:
            applied.setdefault('__closures__', {})[b.name] = n
            b.name = n
    prog.by_name = {}
    for b in prog.bodies:
        prog.by_name.setdefault(b.name, []).append(b)
    prog._mentions = None
    prog._callers = None
    prog._closure_by_span = None
