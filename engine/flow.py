"""Guard-flow analysis (primitive P2) — a path-sensitive typestate analysis over a tiny domain.

For one guard call site G in body F with result r, the analysis tracks a set of *worlds*.  A
world is (atom, bindings):
  * atom      — NOTRUN (G has not executed on this path) or one element of the finite outcome
                universe of r's type (e.g. {Ok, Err}, {true,false}, {Ok(true), Ok(false), Err});
  * bindings  — for the few locals that have both a definition derived from r and other
                definitions ("mixed" locals such as `failed_to_verify_tau`), the concrete value
                the local holds in this world, or UNKNOWN.
Locals all of whose definitions derive from r need no binding: their value is a function of
the atom (descriptor evaluation).  At every switchInt on a derived local only the edges
compatible with the world are followed; everything else follows all edges.  This is a sound
over-approximation of the feasible paths (CFG paths that the analysis drops are exactly those on
which a value copied from r would have to differ from r).

The rule then asks: at sink S, is every world's atom accepted (and, for an unconditional guard,
not NOTRUN)?
"""
import re
from .cfg import CFG, base_local, operand_place, is_plain_local, locals_in
from .mir import callee_key, strip_generics

NOTRUN = ('<notrun>',)
UNKNOWN = None

VARIANT_INDEX = {'Ok': 0, 'Err': 1, 'None': 0, 'Some': 1, 'Continue': 0, 'Break': 1,
                 'true': 1, 'false': 0, 'ok': 1, 'notok': 0}
TRY_INDEX = {'Ok': 0, 'Err': 1, 'Some': 0, 'None': 1}


def universe_for(accept):
    """accept spec -> (universe list, accepted set). Atoms are tuples."""
    table = {
        'Ok': ([('Ok',), ('Err',)], [('Ok',)]),
        'Err': ([('Ok',), ('Err',)], [('Err',)]),
        'Some': ([('Some',), ('None',)], [('Some',)]),
        'None': ([('Some',), ('None',)], [('None',)]),
        'true': ([('true',), ('false',)], [('true',)]),
        'false': ([('true',), ('false',)], [('false',)]),
        'Ok(true)': ([('Ok', 'true'), ('Ok', 'false'), ('Err',)], [('Ok', 'true')]),
        'Ok(false)': ([('Ok', 'true'), ('Ok', 'false'), ('Err',)], [('Ok', 'false')]),
        'Some(true)': ([('Some', 'true'), ('Some', 'false'), ('None',)], [('Some', 'true')]),
        'Some(false)': ([('Some', 'true'), ('Some', 'false'), ('None',)], [('Some', 'false')]),
        'Ok(Some)': ([('Ok', 'Some'), ('Ok', 'None'), ('Err',)], [('Ok', 'Some')]),
        'status_ok': ([('ok',), ('notok',)], [('ok',)]),
        'status_notok': ([('ok',), ('notok',)], [('notok',)]),
    }
    if accept not in table:
        raise ValueError('unknown accept spec %r' % accept)
    u, a = table[accept]
    return list(u), set(a)


class Desc:
    """How a local's value is computed from the guard result.
    steps: tuple of variant names stepped into (field 0 each time).
    op:    'val' (the value itself), 'discr', 'trydiscr', 'is:<Variant>', 'try' (ControlFlow wrapper
           of the value: stepping into Continue == stepping into Ok/Some)
    neg:   boolean negation applied after op."""
    __slots__ = ('steps', 'op', 'neg')

    def __init__(self, steps=(), op='val', neg=False):
        self.steps, self.op, self.neg = tuple(steps), op, neg

    def key(self):
        return (self.steps, self.op, self.neg)

    def __eq__(self, o):
        return isinstance(o, Desc) and self.key() == o.key()

    def __hash__(self):
        return hash(self.key())

    def __repr__(self):
        return 'Desc(%s,%s%s)' % ('.'.join(self.steps) or 'r', self.op, ',neg' if self.neg else '')

    def eval(self, atom):
        """Concrete integer value of the local in a world with this atom, or UNKNOWN."""
        if atom == NOTRUN:
            return UNKNOWN
        cur = atom
        for v in self.steps:
            if not cur:
                return UNKNOWN
            head = cur[0]
            if v == 'Continue':
                if head not in ('Ok', 'Some'):
                    return UNKNOWN
            elif v == 'Break':
                return UNKNOWN
            elif head != v:
                return UNKNOWN
            cur = cur[1:]
        if not cur:
            return UNKNOWN
        head = cur[0]
        if self.op in ('discr', 'discrmap'):
            val = VARIANT_INDEX.get(head)
            if head in ('true', 'false', 'ok', 'notok'):
                return UNKNOWN
        elif self.op == 'trydiscr':
            val = TRY_INDEX.get(head)
        elif self.op == 'val':
            if head in ('true', 'false'):
                val = VARIANT_INDEX[head]
            else:
                return UNKNOWN
        elif self.op.startswith('is:'):
            want = self.op[3:]
            if want == 'ok':  # Status::is_ok on a status atom
                if head in ('ok', 'notok'):
                    val = 1 if head == 'ok' else 0
                else:
                    return UNKNOWN
            else:
                val = 1 if head == want else 0
        else:
            return UNKNOWN
        if val is None:
            return UNKNOWN
        if self.neg:
            if val in (0, 1):
                val = 1 - val
            else:
                return UNKNOWN
        return val


ENUM_AGG_RE = re.compile(r'^(?:std::result::|std::option::|std::ops::|core::result::|core::option::|core::ops::)?'
                         r'(?:Result|Option|ControlFlow)::<.*>::(Ok|Err|Some|None|Continue|Break)(?:\(.*\))?$')
VARIANT_PASS = ('Clone>::clone', 'Option::as_ref', 'Result::as_ref', 'Option::as_mut', 'Option::copied', 'Option::cloned',
                'Option::as_deref', 'Result::map_err')
VARIANT_CALLS = (('Result::is_ok', 'Ok'), ('Result::is_err', 'Err'), ('Option::is_some', 'Some'), ('Option::is_none', 'None'))

PROJ_RE = re.compile(r'^\(\((.+) as (\w+)\)\.(\d+): (.*)\)$')
DEREF_RE = re.compile(r'^\(\*(.+)\)$')

# calls that forward (a view of) their first argument
PASS_THROUGH = (
    'Clone>::clone', 'Option::as_ref', 'Result::as_ref', 'Option::as_mut', 'Option::copied',
    'Option::cloned', 'ToOwned>::to_owned', 'Borrow>::borrow', 'AsRef>::as_ref', 'Deref>::deref',
    'Into>::into', 'From>::from', 'Option::as_deref', 'Result::map_err',
)


def _strip_place(p):
    p = p.strip()
    while True:
        m = DEREF_RE.match(p)
        if m:
            p = m.group(1).strip()
            continue
        break
    return p


class GuardFlow:
    def __init__(self, body, cfg=None):
        self.body = body
        self.cfg = cfg or CFG(body)
        self._defs = None

    # ---- definitions ------------------------------------------------------------------
    def defs(self):
        """local -> list of (block id, index|'term', kind, payload)"""
        if self._defs is not None:
            return self._defs
        d = {}
        for bid, blk in self.body.blocks.items():
            if blk.cleanup:
                continue
            for i, s in enumerate(blk.stmts):
                if s.kind == 'assign':
                    lhs = s.lhs.strip()
                    if is_plain_local(lhs):
                        d.setdefault(int(lhs[1:]), []).append((bid, i, 'assign', s))
                    else:
                        bl = base_local(lhs)
                        if bl is not None:
                            d.setdefault(bl, []).append((bid, i, 'partial', s))
            t = blk.term
            if t.kind == 'call' and t.dest:
                dl = t.dest.strip()
                if is_plain_local(dl):
                    d.setdefault(int(dl[1:]), []).append((bid, 'term', 'call', t))
                else:
                    bl = base_local(dl)
                    if bl is not None:
                        d.setdefault(bl, []).append((bid, 'term', 'partial', t))
        self._defs = d
        return d

    # ---- derivation -------------------------------------------------------------------
    def _rvalue_desc(self, rhs, descs):
        """Descriptor of an rvalue given descriptors of locals, or None."""
        rhs = rhs.strip()
        m = re.match(r'^Not\((.*)\)$', rhs)
        if m:
            pl = operand_place(m.group(1))
            d = self._place_desc(pl, descs) if pl else None
            if d is not None and d.op in ('val',) or (d is not None and d.op.startswith('is:')):
                return Desc(d.steps, d.op, not d.neg)
            return None
        m = re.match(r'^discriminant\((.*)\)$', rhs)
        if m:
            d = self._place_desc(m.group(1), descs)
            if d is not None and d.op in ('val', 'valmap') and not d.neg:
                return Desc(d.steps, 'discr' if d.op == 'val' else 'discrmap')
            if d is not None and d.op == 'try':
                return Desc(d.steps, 'trydiscr')
            return None
        # references / copies / moves / casts
        m = re.match(r"^&(?:'\w+ )?(?:mut )?(.*)$", rhs)
        if m:
            return self._place_desc(m.group(1), descs)
        for pre in ('move ', 'copy '):
            if rhs.startswith(pre):
                body = rhs[len(pre):]
                cm = re.match(r'^(.*) as [^()]+ \(.*\)$', body)
                if cm:
                    body = cm.group(1)
                return self._place_desc(body, descs)
        if rhs.startswith('deref_copy '):
            return self._place_desc(rhs[len('deref_copy '):], descs)
        if re.match(r'^[_(]', rhs):
            return self._place_desc(rhs, descs)
        return None

    def _place_desc(self, place, descs):
        if place is None:
            return None
        place = _strip_place(place)
        if is_plain_local(place):
            return descs.get(int(place[1:]))
        m = PROJ_RE.match(place)
        if m:
            inner = self._place_desc(m.group(1), descs)
            if inner is None:
                return None
            if m.group(3) != '0':
                return None
            if inner.op == 'val' and not inner.neg:
                return Desc(inner.steps + (m.group(2),), 'val')
            if inner.op == 'try' and m.group(2) in ('Continue', 'Break'):
                return Desc(inner.steps + (m.group(2),), 'val')
            return None
        return None

    def derive(self, gblock):
        """Flow-insensitive descriptors for locals derived from the dest of the call in gblock.
        Returns (descs: local -> Desc for locals ALL of whose defs are derived with one
        descriptor, mixed: local -> Desc for locals with derived + other defs)."""
        if isinstance(gblock, tuple):
            gb, gi = gblock
            st = self.body.blocks[gb].stmts[gi]
            dest = st.lhs.strip()
        else:
            gb, gi = gblock, 'term'
            t = self.body.blocks[gblock].term
            dest = t.dest.strip() if t.dest else None
        if dest is None or not is_plain_local(dest):
            return {}, {}
        root = int(dest[1:])
        defs = self.defs()
        cand = {root: Desc()}
        changed = True
        while changed:
            changed = False
            for loc, dl in defs.items():
                if loc == root:
                    continue
                for (bid, idx, kind, obj) in dl:
                    nd = None
                    if kind == 'assign':
                        nd = self._rvalue_desc(obj.rhs, cand)
                    elif kind == 'call':
                        nd = self._call_desc(obj, cand)
                    if nd is not None:
                        old = cand.get(loc)
                        if old is None:
                            cand[loc] = nd
                            changed = True
                        elif old != nd:
                            # two different derivations for one local: keep the first, mark as
                            # conflicting by storing under a special op
                            if old.op != 'conflict':
                                cand[loc] = Desc(old.steps, 'conflict')
                                changed = True
        pure, mixed = {}, {}
        for loc, d in cand.items():
            if d.op == 'conflict':
                mixed[loc] = d
                continue
            if loc == root:
                alld = defs.get(loc, [])
                others = [x for x in alld if not (x[0] == gb and x[1] == gi)]
                if others:
                    mixed[loc] = d
                else:
                    pure[loc] = d
                continue
            allder = True
            for (bid, idx, kind, obj) in defs.get(loc, []):
                nd = None
                if kind == 'assign':
                    nd = self._rvalue_desc(obj.rhs, cand)
                elif kind == 'call':
                    nd = self._call_desc(obj, cand)
                if nd is None or nd != d:
                    allder = False
            if allder:
                pure[loc] = d
            else:
                mixed[loc] = d
        # a local computed from a mixed local is mixed as well (its value follows the binding)
        changed = True
        while changed:
            changed = False
            for loc in list(pure):
                if loc == root:
                    continue
                for (bid, idx, kind, obj) in defs.get(loc, []):
                    if kind == 'assign':
                        srcs = locals_in(obj.rhs)
                    elif kind == 'call':
                        srcs = locals_in(obj.args[0]) if obj.args else []
                    else:
                        srcs = []
                    if any(x in mixed for x in srcs):
                        mixed[loc] = pure.pop(loc)
                        changed = True
                        break
        # short-circuit flags (`a || b`, `a && b`): locals with both a constant and a non-constant
        # definition that feed a switchInt are tracked as bindings too, so that the constant
        # written on one path is not confused with the value computed on the other.
        sw_locals = set()
        for bid, blk in self.body.blocks.items():
            if blk.cleanup or blk.term.kind != 'switchInt':
                continue
            d = blk.term.discr.replace('move ', '').replace('copy ', '').strip()
            if is_plain_local(d):
                sw_locals.add(int(d[1:]))
        for loc, dl in defs.items():
            if loc in pure or loc in mixed or loc not in sw_locals:
                continue
            consts = [x for x in dl if x[2] == 'assign' and re.match(r'^const (true|false)$', x[3].rhs.strip())]
            nonconst = [x for x in dl if not (x[2] == 'assign' and re.match(r'^const ', x[3].rhs.strip()))]
            if consts and nonconst:
                mixed[loc] = Desc((), 'none')
        # variant-valued locals: `_r = Result::Err(..)` on one path and `_r = Result::Ok(..)` on another (the
        # return place of an inlined `-> Result` / `-> Option` helper, an `if .. { Some(x) } else { None }`): the
        # variant written is tracked as a binding and followed through moves, `Try::branch`, `discriminant`,
        # `is_ok/is_err/is_some/is_none`, so that a guard's outcome crosses a `?` on a helper.  Locals that are
        # ever mutably borrowed are left out (a callee could change the variant behind the binding).
        mut_borrowed = set()
        for bid, blk in self.body.blocks.items():
            if blk.cleanup:
                continue
            for s in blk.stmts:
                if s.kind == 'assign':
                    m = re.match(r"^&(?:'\w+ )?mut (.*)$", s.rhs.strip())
                    if m:
                        bl = base_local(m.group(1))
                        if bl is not None:
                            mut_borrowed.add(bl)
        vroots = set()
        for loc, dl in defs.items():
            if loc in pure or loc in mixed or loc in mut_borrowed:
                continue
            if any(x[2] == 'assign' and ENUM_AGG_RE.match(x[3].rhs.strip()) for x in dl):
                vroots.add(loc)
        vset = set(vroots)
        changed = bool(vset)
        while changed:
            changed = False
            for loc, dl in defs.items():
                if loc in vset or loc in pure or loc in mixed or loc in mut_borrowed:
                    continue
                for (bid, idx, kind, obj) in dl:
                    src = None
                    if kind == 'assign':
                        r = obj.rhs.strip()
                        m = re.match(r'^discriminant\((.*)\)$', r)
                        if m:
                            src = m.group(1).strip()
                        else:
                            m = re.match(r"^(?:move |copy |&(?:'\w+ )?)(.*)$", r)
                            if m:
                                src = m.group(1).strip()
                    elif kind == 'call' and obj.args:
                        key = strip_generics(obj.callee)
                        if key.endswith('as Try>::branch') or any(key.endswith(nm) for nm, _ in VARIANT_CALLS) \
                                or any(key.endswith(p) for p in VARIANT_PASS):
                            src = operand_place(obj.args[0])
                    if src is not None:
                        src = _strip_place(src)
                        if is_plain_local(src) and int(src[1:]) in vset:
                            vset.add(loc)
                            changed = True
                            break
        for loc in vset:
            mixed[loc] = Desc((), 'none')
        self.variant_locals = vset
        return pure, mixed

    def _call_desc(self, t, descs):
        if not t.args:
            return None
        key = strip_generics(t.callee)
        pl = operand_place(t.args[0])
        d0 = self._place_desc(pl, descs) if pl else None
        if d0 is None:
            return None
        if key.endswith('as Try>::branch') and d0.op == 'val' and not d0.neg:
            return Desc(d0.steps, 'try')
        if d0.op == 'valmap' and not d0.neg:
            for nm, v in (('Result::is_ok', 'Ok'), ('Result::is_err', 'Err'), ('Option::is_some', 'Some'), ('Option::is_none', 'None')):
                if key.endswith(nm):
                    return Desc(d0.steps, 'is:' + v)
        if d0.op == 'val' and not d0.neg:
            if re.search(r'Result(::<.*>)?::is_ok$', t.callee) or key.endswith('Result::is_ok'):
                return Desc(d0.steps, 'is:Ok')
            if key.endswith('Result::is_err'):
                return Desc(d0.steps, 'is:Err')
            if key.endswith('Option::is_some'):
                return Desc(d0.steps, 'is:Some')
            if key.endswith('Option::is_none'):
                return Desc(d0.steps, 'is:None')
            if key.endswith('Status::is_ok'):
                return Desc(d0.steps, 'is:ok')
            for p in PASS_THROUGH:
                if key.endswith(p):
                    return Desc(d0.steps, 'val')
            if key.endswith('Option::map') or key.endswith('Result::map'):
                # the outer variant is preserved (and_then: Some may become None -> handled as
                # opaque: only None-ness of the input implies None-ness of the output)
                return Desc(d0.steps, 'valmap')
        return None

    # ---- the analysis -----------------------------------------------------------------
    def analyse(self, gblock, accept, removed=()):
        """Returns dict block id -> set of worlds at block ENTRY, where world =
        (atom, frozenset((local,value)))."""
        universe, accepted = universe_for(accept)
        pure, mixed = self.derive(gblock)
        mixed_locals = sorted(mixed)
        stmt_guard = isinstance(gblock, tuple)
        gb = gblock[0] if stmt_guard else gblock
        root_local = None
        if stmt_guard:
            root_local = base_local(self.body.blocks[gb].stmts[gblock[1]].lhs)
        body, cfg = self.body, self.cfg
        entry_world = (NOTRUN, tuple(UNKNOWN for _ in mixed_locals))
        state = {cfg.entry: {entry_world}}
        work = [cfg.entry]
        out_at = {}   # (block) -> worlds after the terminator per successor
        # pre-compute per block the assignments to mixed locals, in order
        defs = self.defs()

        def eval_rhs_const(rhs):
            rhs = rhs.strip()
            m = re.match(r'^const (true|false)$', rhs)
            if m:
                return 1 if m.group(1) == 'true' else 0
            m = re.match(r'^const (-?\d+)_?[iu]?\w*$', rhs)
            if m:
                return int(m.group(1))
            return UNKNOWN

        def value_of_local(loc, world):
            atom, binds = world
            if loc in mixed:
                return binds[mixed_locals.index(loc)]
            if loc in pure:
                return pure[loc].eval(atom)
            return UNKNOWN

        def value_of_place(pl, world):
            pl = _strip_place(pl)
            if is_plain_local(pl):
                return value_of_local(int(pl[1:]), world)
            bl = base_local(pl)
            if bl in pure:
                d = self._place_desc(pl, pure)
                if d is not None:
                    return d.eval(world[0])
            return UNKNOWN

        def value_of_operand(op, world):
            op = op.strip()
            if op.startswith('const '):
                return eval_rhs_const(op)
            pl = operand_place(op)
            if pl is None:
                return UNKNOWN
            cm = re.match(r'^(.*) as [^()]+ \(.*\)$', pl)
            if cm:
                pl = cm.group(1)
            return value_of_place(pl, world)

        def eval_rvalue(rhs, world):
            rhs = rhs.strip()
            v = eval_rhs_const(rhs)
            if v is not UNKNOWN:
                return v
            m = re.match(r'^Not\((.*)\)$', rhs)
            if m:
                iv = value_of_operand(m.group(1), world)
                return (1 - iv) if iv in (0, 1) else UNKNOWN
            m = ENUM_AGG_RE.match(rhs)
            if m:
                return ('V', m.group(1))
            m = re.match(r'^discriminant\((.*)\)$', rhs)
            if m:
                bl = base_local(m.group(1))
                if bl in pure:
                    d = self._rvalue_desc(rhs, pure)
                    if d is not None:
                        return d.eval(world[0])
                pl = _strip_place(m.group(1))
                if is_plain_local(pl) and int(pl[1:]) in mixed:
                    bv = value_of_local(int(pl[1:]), world)
                    if isinstance(bv, tuple) and bv[0] == 'V':
                        return VARIANT_INDEX.get(bv[1], UNKNOWN)
                return UNKNOWN
            m = re.match(r"^&(?:'\w+ )?(?:mut )?(.*)$", rhs)
            if m:
                return value_of_place(m.group(1), world)
            if rhs.startswith(('move ', 'copy ')):
                return value_of_operand(rhs, world)
            if rhs.startswith('deref_copy '):
                return value_of_place(rhs[len('deref_copy '):], world)
            if re.match(r'^[_(]', rhs):
                return value_of_place(rhs, world)
            return UNKNOWN

        def variant_call(t, world):
            """value of the dest of `Try::branch` / `is_ok` / pass-through calls on a variant-bound local"""
            pl = operand_place(t.args[0])
            if pl is None:
                return UNKNOWN
            pl = _strip_place(pl)
            if not is_plain_local(pl):
                return UNKNOWN
            bv = value_of_local(int(pl[1:]), world)
            key = strip_generics(t.callee)
            if isinstance(bv, tuple) and bv[0] == 'V':
                if key.endswith('as Try>::branch'):
                    return ('V', 'Continue' if bv[1] in ('Ok', 'Some', 'Continue') else 'Break')
                for nm, v in VARIANT_CALLS:
                    if key.endswith(nm):
                        return 1 if bv[1] == v else 0
                for p in VARIANT_PASS:
                    if key.endswith(p):
                        return bv
            return UNKNOWN

        def transfer_block(bid, world, lo=0, hi=None):
            """apply statements [lo, hi) of the block; returns the world after them"""
            atom, binds = world
            if not mixed_locals:
                return world
            blk = body.blocks[bid]
            binds = list(binds)
            stmts = blk.stmts[lo:hi] if hi is not None else blk.stmts[lo:]
            for s in stmts:
                if s.kind == 'dead':
                    m = re.fullmatch(r'_(\d+)', s.lhs.strip())
                    if m and int(m.group(1)) in mixed:
                        binds[mixed_locals.index(int(m.group(1)))] = UNKNOWN
                    continue
                if s.kind != 'assign':
                    continue
                lhs = s.lhs.strip()
                if not is_plain_local(lhs):
                    bl = base_local(lhs)
                    if bl in mixed:
                        binds[mixed_locals.index(bl)] = UNKNOWN
                    continue
                loc = int(lhs[1:])
                if loc not in mixed:
                    continue
                binds[mixed_locals.index(loc)] = eval_rvalue(s.rhs, (atom, tuple(binds)))
            return (atom, tuple(binds))

        results = {}
        iterations = 0
        while work:
            bid = work.pop()
            iterations += 1
            if iterations > 200000:
                raise RuntimeError('guard-flow did not converge in %s' % body.name)
            worlds = state.get(bid, set())
            blk = body.blocks[bid]
            t = blk.term
            succ_worlds = {}
            after = []
            for w in worlds:
                if stmt_guard and bid == gb:
                    w2 = transfer_block(bid, w, 0, gblock[1] + 1)
                    for a in universe:
                        b2 = list(w2[1])
                        for k, ml in enumerate(mixed_locals):
                            if ml == root_local:
                                b2[k] = mixed[ml].eval(a)
                        after.append(transfer_block(bid, (a, tuple(b2)), gblock[1] + 1, None))
                else:
                    after.append(transfer_block(bid, w))
            for (atom, binds) in after:
                if t.kind == 'call':
                    # dest of a call into a mixed local -> unknown
                    if mixed_locals and t.dest:
                        bl = base_local(t.dest)
                        if bl in mixed and not (bid == gb and not stmt_guard):
                            b2 = list(binds)
                            nd = self._call_desc(t, pure)
                            nv = nd.eval(atom) if nd is not None else UNKNOWN
                            if nd is None and t.args and is_plain_local(t.dest.strip()):
                                nv = variant_call(t, (atom, binds))
                            b2[mixed_locals.index(bl)] = nv
                            binds = tuple(b2)
                    if bid == gb and not stmt_guard:
                        for s in t.targets:
                            for a in universe:
                                b2 = list(binds)
                                for k, ml in enumerate(mixed_locals):
                                    if ml == base_local(t.dest):
                                        b2[k] = mixed[ml].eval(a)
                                succ_worlds.setdefault(s, set()).add((a, tuple(b2)))
                        continue
                    for s in t.targets:
                        succ_worlds.setdefault(s, set()).add((atom, binds))
                elif t.kind == 'switchInt':
                    v = value_of_operand(t.discr, (atom, binds))
                    if isinstance(v, tuple):
                        v = UNKNOWN
                    listed = [c for c, _ in t.cases if c != 'otherwise']
                    for c, s in t.cases:
                        if v is UNKNOWN:
                            ok = True
                        elif c == 'otherwise':
                            ok = v not in listed
                        else:
                            ok = (v == c)
                        if ok:
                            succ_worlds.setdefault(s, set()).add((atom, binds))
                else:
                    for s in t.targets:
                        succ_worlds.setdefault(s, set()).add((atom, binds))
            for s, ws in succ_worlds.items():
                if s not in cfg.succ or s in removed:
                    continue
                cur = state.setdefault(s, set())
                if not ws <= cur:
                    cur |= ws
                    work.append(s)
        self.last = {'pure': pure, 'mixed': mixed, 'universe': universe, 'accepted': accepted}
        return state, accepted

    def check_sink(self, gblock, accept, sblock, unconditional=True, removed=()):
        """Returns (ok, detail).  detail lists the offending atoms at the sink."""
        state, accepted = self.analyse(gblock, accept, removed)
        worlds = state.get(sblock, set())
        atoms = set(w[0] for w in worlds)
        bad = set()
        for a in atoms:
            if a == NOTRUN:
                if unconditional:
                    bad.add(a)
            elif a not in accepted:
                bad.add(a)
        return (not bad), {'atoms_at_sink': sorted('(' .join(a) + ')' * (len(a) - 1) for a in atoms),
                           'rejecting': sorted('('.join(a) + ')' * (len(a) - 1) for a in bad),
                           'sink_reachable': bool(worlds),
                           'derived_locals': len(self.last['pure']) + len(self.last['mixed'])}
